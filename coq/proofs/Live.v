(* C06 (filter form) and C07: the repetition-checked list is a filter of the rule-only list, and the
   summary queries (has_move, can_pass, is_terminal mid-turn) agree with the lists. *)
From Coq Require Import NArith ZArith List Bool Lia ZifyBool ZifyN.
From Arimaa Require Import Types U64 GenMasks GenEnums GenZobrist Board Zobrist Engine Notation Display Trace Cells Rules Monitors
  Fin XorFold Hash BitLemmas StepLemmas GenLemmas Refine Invariant TurnLemmas.
Import ListNotations.
Open Scope N_scope.
Strategy opaque [bits_of].

Definition nonempty {A} (l : list A) : bool := match l with [] => false | _ => true end.

Lemma nonempty_app {A} (l1 l2 : list A) : nonempty (l1 ++ l2) = nonempty l1 || nonempty l2.
Proof. destruct l1; reflexivity. Qed.
Lemma nonempty_filter {A} (p : A -> bool) l : nonempty (filter p l) = existsb p l.
Proof. induction l as [|a l IH]; [reflexivity|]. cbn. destruct (p a); [reflexivity|exact IH]. Qed.
Lemma nonempty_In {A} (l : list A) : nonempty l = true <-> exists x, In x l.
Proof. destruct l as [|a l]; cbn; split; try discriminate; [intros [x []]|eauto|reflexivity]. Qed.
Lemma nonempty_ext {A} (l1 l2 : list A) : (forall x, In x l1 <-> In x l2) -> nonempty l1 = nonempty l2.
Proof.
  intros H. destruct (nonempty l1) eqn:E1, (nonempty l2) eqn:E2; try reflexivity.
  - apply nonempty_In in E1. destruct E1 as [x Hx]. apply H in Hx. assert (nonempty l2 = true) by (apply nonempty_In; eauto). congruence.
  - apply nonempty_In in E2. destruct E2 as [x Hx]. apply H in Hx. assert (nonempty l1 = true) by (apply nonempty_In; eauto). congruence.
Qed.
Lemma existsb_set_ext {A} (p : A -> bool) l1 l2 : (forall x, In x l1 <-> In x l2) -> existsb p l1 = existsb p l2.
Proof.
  intros H. destruct (existsb p l1) eqn:E1, (existsb p l2) eqn:E2; try reflexivity.
  - apply existsb_exists in E1. destruct E1 as [x [Hx Px]]. apply H in Hx.
    assert (existsb p l2 = true) by (apply existsb_exists; eauto). congruence.
  - apply existsb_exists in E2. destruct E2 as [x [Hx Px]]. apply H in Hx.
    assert (existsb p l1 = true) by (apply existsb_exists; eauto). congruence.
Qed.

Section Live.
  Variable s : state.
  Variable pp : play.
  Hypothesis Inv : PlayInv s pp.
  Lemma Hph : ph s = PlayPhase pp. Proof. exact (inv_phase s pp Inv). Qed.
  Lemma W : WFb (board s). Proof. exact (inv_board s pp Inv). Qed.
  Lemma Hok : status_ok (pstate pp). Proof. exact (status_inv_ok _ _ _ (inv_status s pp Inv)). Qed.

  (* whether the repetition filter is active *)
  Definition rep_active : bool := (step_of pp =? 3) && negb (trapped pp).
  Definition not_pl (a : action) : bool := negb (is_passing_like_action s a).

  Lemma rpl_unfold l : remove_passing_like_actions s l = if rep_active then filter not_pl l else l.
  Proof. unfold remove_passing_like_actions, unwrap_play_phase, rep_active. rewrite Hph. reflexivity. Qed.

  Lemma hnpl_unfold l : has_non_passing_like_action s l = if rep_active then existsb not_pl l else nonempty l.
  Proof.
    unfold has_non_passing_like_action, unwrap_play_phase, rep_active. rewrite Hph.
    pose proof (inv_step s pp Inv) as H3.
    destruct l as [|a l]; [destruct ((step_of pp =? 3) && negb (trapped pp)); reflexivity|].
    destruct (N.ltb_spec (step_of pp) 3) as [L|L]; cbn [orb].
    - destruct (N.eqb_spec (step_of pp) 3); [lia|reflexivity].
    - destruct (N.eqb_spec (step_of pp) 3); [|lia]. destruct (trapped pp); reflexivity.
  Qed.

  Lemma hnpl_rpl l : has_non_passing_like_action s l = nonempty (remove_passing_like_actions s l).
  Proof. rewrite hnpl_unfold, rpl_unfold. destruct rep_active; [now rewrite nonempty_filter|reflexivity]. Qed.

  Lemma rpl_app l1 l2 : remove_passing_like_actions s (l1 ++ l2) = remove_passing_like_actions s l1 ++ remove_passing_like_actions s l2.
  Proof. rewrite !rpl_unfold. destruct rep_active; [apply filter_app|reflexivity]. Qed.

  Lemma rpl_pass : remove_passing_like_actions s [Pass] = [Pass].
  Proof. rewrite rpl_unfold. destruct rep_active; reflexivity. Qed.

  Lemma rpl_set_ext l1 l2 : (forall x, In x l1 <-> In x l2) ->
    nonempty (remove_passing_like_actions s l1) = nonempty (remove_passing_like_actions s l2).
  Proof.
    intros H. rewrite !rpl_unfold. destruct rep_active; [|now apply nonempty_ext].
    rewrite !nonempty_filter. now apply existsb_set_ext.
  Qed.

  Lemma In_rpl x l : In x (remove_passing_like_actions s l) <-> In x l /\ (rep_active = false \/ not_pl x = true).
  Proof.
    rewrite rpl_unfold. destruct rep_active; [rewrite filter_In|]; split; try tauto.
    intros [H [X|X]]; [discriminate|tauto].
  Qed.

  (* the pull generator adds to its accumulator the same actions it produces from an empty one *)
  Lemma pull_acc_split acc x :
    In x (extend_with_pull_piece_actions s (board s) acc) <-> In x acc \/ In x (extend_with_pull_piece_actions s (board s) []).
  Proof.
    destruct (pstate pp) as [|sq k|sq k] eqn:E.
    - rewrite !(pull_moves_none s pp Hph) by (intros ? ?; rewrite E; discriminate). cbn. tauto.
    - rewrite !(pull_fold_eq s pp Hph sq k _ E), !fold_add_new_In. cbn [In]. tauto.
    - rewrite !(pull_moves_none s pp Hph) by (intros ? ?; rewrite E; discriminate). cbn. tauto.
  Qed.

  Definition move_segment : list action :=
    extend_with_pull_piece_actions s (board s) (extend_with_push_piece_actions s (board s))
    ++ extend_with_valid_curr_player_piece_moves s (board s).

  Lemma valid_unfold check :
    valid_actions_ s check =
    let va := if is_mcp (pstate pp) then must_complete_push_actions s (board s)
              else if can_pass s check then move_segment ++ [Pass] else move_segment in
    if check then remove_passing_like_actions s va else va.
  Proof. unfold valid_actions_, move_segment. rewrite Hph. reflexivity. Qed.

  Lemma can_pass_true_false : can_pass s true = true -> can_pass s false = true.
  Proof.
    unfold can_pass, as_play_phase. rewrite Hph. cbn [negb orb]. intros H.
    apply andb_prop in H. destruct H as [H _]. now rewrite H.
  Qed.

  (* C07: has_move answers "has an action" exactly when the offered list is non-empty *)
  Theorem has_move_iff : has_move s (board s) = None <-> valid_actions s <> [].
  Proof.
    unfold valid_actions. rewrite (valid_unfold true). cbv zeta.
    unfold has_move. rewrite Hph.
    assert (forall l : list action, nonempty l = true <-> l <> []) as NE by (intros [|? ?]; cbn; split; congruence).
    assert (forall b : bool, (if b then None else Some (loss_for_mover s)) = None <-> b = true) as OB by (intros []; split; congruence).
    rewrite OB, <- NE.
    destruct (is_mcp (pstate pp)); [now rewrite hnpl_rpl|].
    destruct (can_pass s true).
    - rewrite rpl_app, rpl_pass, nonempty_app. cbn. rewrite orb_true_r. tauto.
    - rewrite !hnpl_rpl. unfold move_segment. rewrite rpl_app, nonempty_app.
      rewrite (rpl_set_ext (extend_with_pull_piece_actions s (board s) (extend_with_push_piece_actions s (board s)))
                 (extend_with_push_piece_actions s (board s) ++ extend_with_pull_piece_actions s (board s) [])).
      2:{ intros x. rewrite pull_acc_split, in_app_iff. tauto. }
      rewrite rpl_app, nonempty_app.
      destruct (nonempty (remove_passing_like_actions s (extend_with_valid_curr_player_piece_moves s (board s)))),
               (nonempty (remove_passing_like_actions s (extend_with_pull_piece_actions s (board s) []))),
               (nonempty (remove_passing_like_actions s (extend_with_push_piece_actions s (board s)))); cbn; tauto.
  Qed.

  Lemma segment_moves_only x : In x move_segment -> exists i d, x = Move i d.
  Proof. apply (moves_only_segment s pp Hph W Hok). Qed.

  (* C07: the can-pass query with repetition checking *)
  Theorem can_pass_rep_iff : can_pass s true = true <-> In Pass (valid_actions s).
  Proof.
    unfold valid_actions. rewrite (valid_unfold true). cbv zeta.
    destruct (is_mcp (pstate pp)) eqn:M.
    - split.
      + unfold can_pass, as_play_phase. rewrite Hph, M. cbn. rewrite andb_false_r. discriminate.
      + intros H. apply In_rpl in H. destruct H as [H _]. apply (mcp_only s) in H. destruct H as [i [d H]]. discriminate.
    - destruct (can_pass s true).
      + split; [intros _|reflexivity]. rewrite rpl_app, rpl_pass. apply in_or_app. right. now left.
      + split; [discriminate|]. intros H. apply In_rpl in H. destruct H as [H _]. apply segment_moves_only in H. destruct H as [i [d H]]. discriminate.
  Qed.

  Theorem can_pass_norep_iff : can_pass s false = true <-> In Pass (valid_actions_no_rep s).
  Proof. rewrite (can_pass_norep s pp Hph). symmetry. apply (T1_pass s pp Hph W Hok). Qed.

  (* C06, filter form: the offered list is the rule-only list with some turn-ending actions removed, same order *)
  Definition keep (a : action) : bool :=
    match a with
    | Pass => can_pass s true
    | Move _ _ => negb rep_active || not_pl a
    | Place _ => true
    end.

  Lemma filter_keep_moves l : (forall x, In x l -> exists i d, x = Move i d) ->
    filter keep l = remove_passing_like_actions s l.
  Proof.
    intros H. rewrite rpl_unfold. induction l as [|a l IH]; [destruct rep_active; reflexivity|].
    destruct (H a (or_introl eq_refl)) as [i [d ->]]. cbn [filter keep].
    assert (IH' := IH (fun x Hx => H x (or_intror Hx))). destruct rep_active; cbn [negb orb].
    - cbn [filter]. destruct (not_pl (Move i d)); now rewrite IH'.
    - now rewrite IH'.
  Qed.

  Theorem valid_is_filter : valid_actions s = filter keep (valid_actions_no_rep s).
  Proof.
    unfold valid_actions, valid_actions_no_rep. rewrite (valid_unfold true), (valid_unfold false). cbv zeta.
    destruct (is_mcp (pstate pp)).
    - symmetry. apply filter_keep_moves. apply (mcp_only s).
    - destruct (can_pass s true) eqn:CT.
      + rewrite (can_pass_true_false CT). rewrite filter_app, rpl_app, rpl_pass. cbn [filter keep]. rewrite CT.
        f_equal. symmetry. apply filter_keep_moves. apply segment_moves_only.
      + destruct (can_pass s false).
        * rewrite filter_app. cbn [filter keep]. rewrite CT, app_nil_r. symmetry. apply filter_keep_moves. apply segment_moves_only.
        * symmetry. apply filter_keep_moves. apply segment_moves_only.
  Qed.

  (* actions that do not end the turn are never withheld *)
  Theorem keep_non_ending i d : step_of pp < 3 -> keep (Move i d) = true.
  Proof. intros H. unfold keep, rep_active. destruct (N.eqb_spec (step_of pp) 3); [lia|reflexivity]. Qed.

  (* C07: mid-turn the result is reported exactly when the list is empty, and it is a loss for the mover *)
  Theorem midturn_result : 0 < step_of pp ->
    is_terminal s = if nonempty (valid_actions s) then None else Some (loss_for_mover s).
  Proof.
    intros H. unfold is_terminal, as_play_phase. rewrite Hph.
    destruct (N.ltb_spec 0 (step_of pp)); [|lia].
    destruct (has_move s (board s)) eqn:E.
    - assert (valid_actions s = []) as Z.
      { destruct (valid_actions s) eqn:V; [reflexivity|]. assert (has_move s (board s) = None) by (apply has_move_iff; rewrite V; discriminate). congruence. }
      rewrite Z. cbn. unfold has_move in E. rewrite Hph in E.
      match type of E with (if ?c then _ else _) = _ => destruct c end; [discriminate|symmetry; exact E].
    - apply has_move_iff in E. destruct (valid_actions s); [congruence|reflexivity].
  Qed.

  (* C07: when no result is reported there is an action *)
  Theorem live : is_terminal s = None -> valid_actions s <> [].
  Proof.
    unfold is_terminal, as_play_phase. rewrite Hph. intros H. apply has_move_iff.
    destruct (0 <? step_of pp); [exact H|].
    destruct (rabbit_at_goal s (board s)); [discriminate|]. destruct (lost_all_rabbits s (board s)); [discriminate|]. exact H.
  Qed.
End Live.
