(* Zobrist algebra: the from-scratch hash as a fold over squares. *)
From Coq Require Import NArith List Bool Lia.
From Arimaa Require Import Types U64 GenMasks GenEnums GenZobrist Board Zobrist Cells XorFold.
Import ListNotations.
Open Scope N_scope.

Definition cv (c : option (bool * piece)) (i : N) : N :=
  match c with None => 0 | Some (o, k) => piece_value i k o end.

Definition board_part (b : pbs) : N := xsum (fun i => cv (cell b i) i) sq64.

Definition header_part (is_p1_to_move : bool) (step : N) : N :=
  N.lxor (if is_p1_to_move then INITIAL else N.lxor INITIAL PLAYER_TO_MOVE) (step_val step).

Lemma In_sq64_lt i : In i sq64 -> i < 64.
Proof. unfold sq64. cbn [In]. intros H. repeat (destruct H as [<-|H]; [lia|]). contradiction. Qed.

Lemma M64_spec i : N.testbit M64 i = (i <? 64).
Proof.
  change M64 with (N.ones 64).
  destruct (N.ltb_spec i 64).
  - apply N.ones_spec_low; lia.
  - apply N.ones_spec_high; lia.
Qed.

Lemma bnot_spec x i : N.testbit (bnot x) i = (i <? 64) && negb (N.testbit x i).
Proof. unfold bnot. rewrite N.ldiff_spec, M64_spec. reflexivity. Qed.

Lemma bfp_spec b k s i : i < 64 ->
  N.testbit (bits_for_piece b k s) i =
  N.testbit (bits_by_piece_type b k) i &&
  (if s then N.testbit (p1 b) i else negb (N.testbit (p1 b) i) && N.testbit (allp b) i).
Proof.
  intros Hi. unfold bits_for_piece, player_piece_mask. rewrite N.land_spec.
  destruct s; [reflexivity|]. rewrite N.land_spec, bnot_spec.
  destruct (N.ltb_spec i 64); [reflexivity|lia].
Qed.

(* the twelve (side, kind) terms at one square collapse to the cell's value *)
Lemma per_square b i : i < 64 -> wf_at b i = true ->
  xsum (fun s => xsum (fun k => if N.testbit (bits_for_piece b k s) i then piece_value i k s else 0) PIECE_ALL) sides
  = cv (cell b i) i.
Proof.
  intros Hi Hwf.
  unfold sides, PIECE_ALL. rewrite !xsum_cons, !xsum_nil.
  rewrite !bfp_spec by exact Hi. cbn [bits_by_piece_type].
  unfold cell, kind_at, cv. unfold wf_at in Hwf.
  destruct (N.testbit (el b) i), (N.testbit (ca b) i), (N.testbit (ho b) i), (N.testbit (dg b) i),
           (N.testbit (ct b) i), (N.testbit (rb b) i), (N.testbit (allp b) i), (N.testbit (p1 b) i);
    try discriminate Hwf; cbn [andb negb]; rewrite ?N.lxor_0_l, ?N.lxor_0_r; reflexivity.
Qed.

Lemma board_fold_spec b : WFb b ->
  xsum (fun s => xsum (fun k => xsum (fun sq => piece_value sq k s) (bits_of (bits_for_piece b k s))) PIECE_ALL) sides
  = board_part b.
Proof.
  intros [_ Hwf]. unfold board_part, bits_of.
  erewrite xsum_ext with (l := sides).
  2:{ intros s _. erewrite xsum_ext with (l := PIECE_ALL).
      2:{ intros k _. apply xsum_filter. }
      apply xsum_swap. }
  cbv beta. rewrite xsum_swap.
  apply xsum_ext. intros i Hi. apply per_square; [apply In_sq64_lt; exact Hi | apply Hwf].
Qed.

Section FoldGen.
  Variable pv : N -> piece -> bool -> N.
  Variable bits : piece -> bool -> list N.

  Lemma kind_fold_gen sd (lk : list piece) h1 :
    fold_left (fun acc k => fold_left (fun acc sq => N.lxor acc (pv sq k sd)) (bits k sd) acc) lk h1
    = N.lxor h1 (xsum (fun k => xsum (fun sq => pv sq k sd) (bits k sd)) lk).
  Proof.
    revert h1. induction lk as [|k lk IHk]; intros h1; cbn [fold_left].
    - now rewrite xsum_nil, N.lxor_0_r.
    - rewrite IHk, xsum_cons, <- N.lxor_assoc. f_equal. apply fold_xor_shift.
  Qed.

  Lemma side_fold_gen (lk : list piece) (l : list bool) h0 :
    fold_left (fun acc side => fold_left (fun acc k =>
       fold_left (fun acc sq => N.lxor acc (pv sq k side)) (bits k side) acc) lk acc) l h0
    = N.lxor h0 (xsum (fun s0 => xsum (fun k => xsum (fun sq => pv sq k s0) (bits k s0)) lk) l).
  Proof.
    revert h0. induction l as [|sd l IH]; intros h0; cbn [fold_left].
    - now rewrite xsum_nil, N.lxor_0_r.
    - rewrite IH, xsum_cons, <- N.lxor_assoc. f_equal. apply kind_fold_gen.
  Qed.
End FoldGen.

Lemma z_from_piece_board_spec b s st : WFb b ->
  z_from_piece_board b s st = N.lxor (header_part s st) (board_part b).
Proof.
  intros Hwf. unfold z_from_piece_board. cbv zeta.
  rewrite (side_fold_gen piece_value (fun k sd => bits_of (bits_for_piece b k sd))), board_fold_spec by exact Hwf.
  unfold header_part. destruct s; reflexivity.
Qed.
