(* C20: what is logic about the stack use of the history list.
   (a) growth: along a capture-free history the list grows by one node per completed turn (engine model);
   (b) a cost semantics for dropping the Arc chain: nodes carry a strong count (1 = uniquely owned, more =
       shared with other states).  Compiler-generated drop glue recurses once per uniquely owned node; the
       iterative Drop of linked_list.rs (fix: 6afde1a, its presence is read from the source: DROP_IMPLS)
       unlinks nodes in a loop with constant depth, frees exactly the uniquely owned prefix, and leaves the
       shared suffix (other states' histories) intact.
   Frame sizes, codegen and the 2 MiB default are runtime facts: measured by the check (stack / dropprobe). *)
From Coq Require Import NArith Arith List Bool String Lia.
From Arimaa Require Import Types GenTypes U64 Board Zobrist Engine.
Import ListNotations.
Close Scope N_scope.
Open Scope nat_scope.

Lemma list_has_iterative_drop : In "List"%string DROP_IMPLS.
Proof. vm_compute. auto. Qed.

(* ---- (a) growth ---- *)
Lemma pass_grows s pp : ph s = PlayPhase pp -> trapped pp = false ->
  exists pp', ph (take_action s Pass) = PlayPhase pp' /\ List.length (hist pp') = S (List.length (hist pp)).
Proof.
  intros H T. cbn [take_action]. unfold pass, unwrap_play_phase. rewrite H, T. eexists. split; reflexivity.
Qed.

(* n capture-free turns of the form (any state) -> pass give a history longer by n: lengths are unbounded *)
Fixpoint passes (n : nat) (s : state) : state := match n with O => s | S k => passes k (take_action s Pass) end.
Lemma passes_grow n : forall s pp, ph s = PlayPhase pp -> trapped pp = false ->
  exists pp', ph (passes n s) = PlayPhase pp' /\ List.length (hist pp') = (n + List.length (hist pp))%nat /\ trapped pp' = false.
Proof.
  induction n as [|n IH]; intros s pp H T; [exists pp; auto|].
  cbn [passes]. cbn [take_action]. unfold pass, unwrap_play_phase. rewrite H, T.
  edestruct (IH (mkstate (negb (side s)) (wadd (move_no s) (if side s then 0 else 1)%N)
              (PlayPhase (play_initial (z_pass (hash s) (current_step s)) (z_pass (hash s) (current_step s) :: hist pp)))
              (board s) (z_pass (hash s) (current_step s)))) as (pp' & A & B & C); [reflexivity|reflexivity|].
  exists pp'. split; [exact A|]. split; [|exact C]. rewrite B. cbn [hist play_initial List.length]. lia.
Qed.

(* ---- (b) cost of dropping ---- *)
(* a chain of nodes, head first, each with its strong count *)
Definition chain := list nat.

(* compiler-generated glue: dropping a handle decrements the head's count; if it reaches zero the node is freed
   and ITS drop runs the same code on the next link, one stack frame deeper *)
Fixpoint glue_depth (c : chain) : nat :=
  match c with
  | [] => 0
  | n :: r => if Nat.eqb n 1 then S (glue_depth r) else 1
  end.
Fixpoint glue_result (c : chain) : chain :=
  match c with
  | [] => []
  | n :: r => if Nat.eqb n 1 then glue_result r else (n - 1) :: r
  end.

(* impl Drop for List: loop { match Arc::try_unwrap(node) { Ok(n) => link = n.next.take(), Err(_) => break } }
   each freed node is dropped with next = None (depth 1); the loop itself uses one frame *)
Fixpoint iter_result (c : chain) : chain :=
  match c with
  | [] => []
  | n :: r => if Nat.eqb n 1 then iter_result r else (n - 1) :: r
  end.
Definition iter_depth (c : chain) : nat := match c with [] => 0 | _ => 1 end.

Fixpoint unique_prefix (c : chain) : nat :=
  match c with n :: r => if Nat.eqb n 1 then S (unique_prefix r) else 0 | [] => 0 end.

Theorem glue_depth_unbounded : forall B, exists c, B < glue_depth c.
Proof.
  intros B. exists (repeat 1 (S B)). induction B as [|B IH]; cbn; [lia|]. cbn in IH. lia.
Qed.

Theorem glue_depth_is_prefix c : glue_depth c = unique_prefix c + (if Nat.ltb (unique_prefix c) (List.length c) then 1 else 0).
Proof.
  induction c as [|n r IH]; [reflexivity|]. cbn [glue_depth unique_prefix List.length].
  destruct (Nat.eqb n 1); [rewrite IH|reflexivity].
  destruct (Nat.ltb_spec (unique_prefix r) (List.length r)), (Nat.ltb_spec (S (unique_prefix r)) (S (List.length r))); lia.
Qed.

Theorem iter_depth_bounded c : iter_depth c <= 1.
Proof. destruct c; cbn; lia. Qed.

(* both free exactly the uniquely owned prefix and leave the shared suffix, with one reference fewer, untouched *)
Theorem iter_same_effect c : iter_result c = glue_result c.
Proof. induction c as [|n r IH]; [reflexivity|]. cbn. now rewrite IH. Qed.

Theorem iter_result_spec c : iter_result c =
  match skipn (unique_prefix c) c with [] => [] | n :: r => (n - 1) :: r end.
Proof.
  induction c as [|n r IH]; [reflexivity|]. cbn [iter_result unique_prefix]. destruct (Nat.eqb n 1); [exact IH|reflexivity].
Qed.

(* clone / len / append / iter touch only the head node *)
Definition clone_chain (c : chain) : chain := match c with [] => [] | n :: r => S n :: r end.
Theorem clone_then_drop c : (forall n, In n c -> 1 <= n) -> iter_result (clone_chain c) = c.
Proof.
  destruct c as [|n r]; [reflexivity|]. intros H. cbn. assert (1 <= n) by (apply H; now left).
  destruct (Nat.eqb_spec n 0); [lia|]. f_equal. lia.
Qed.
