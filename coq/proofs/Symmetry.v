(* C11: the square-level rules commute with file mirroring and with colour swap + rank flip, and by T1 so do
   the engine's rule-only offered sets, step results, statuses and (by C04) results. *)
From Coq Require Import NArith ZArith List Bool Lia ZifyBool ZifyN.
From Arimaa Require Import Types U64 GenMasks GenEnums GenZobrist Board Zobrist Engine Notation Display Trace Cells Rules Monitors
  Fin XorFold Hash HashSens BitLemmas StepLemmas GenLemmas Refine Invariant TurnLemmas HashInv Live Setup Reach ResultLemmas Traps RepInv Material.
Import ListNotations.
Open Scope N_scope.
Strategy opaque [bits_of].

Section Sym.
  Variable ts : N -> N.            (* squares *)
  Variable td : dir -> dir.        (* directions *)
  Variable tw : bool -> bool.      (* owners *)
  Hypothesis ts_lt : forall i, i < 64 -> ts i < 64.
  Hypothesis ts_inv : forall i, i < 64 -> ts (ts i) = i.
  Hypothesis tw_eqb : forall a b, Bool.eqb (tw a) (tw b) = Bool.eqb a b.
  Hypothesis dst_sym : forall i d, i < 64 -> dst_of (ts i) (td d) = option_map ts (dst_of i d).
  Hypothesis or4 : forall g : dir -> bool, g (td Up) || g (td Right) || g (td Down) || g (td Left) = g Up || g Right || g Down || g Left.
  Hypothesis trap_sym : forall i, i < 64 -> is_trap (ts i) = is_trap i.
  Hypothesis back_sym : forall o d, backward (tw o) (td d) = backward o d.

  Definition tcontent (x : content) : content := option_map (fun p => (tw (fst p), snd p)) x.
  (* c' is the image of c *)
  Definition img (c c' : cellf) : Prop := forall j, j < 64 -> c' (ts j) = tcontent (c j).

  Definition tst (st : sstatus) : sstatus :=
    match st with SNone => SNone | SPull sq k => SPull (ts sq) k | SPush sq k => SPush (ts sq) k end.

  Lemma ts_inj i j : i < 64 -> j < 64 -> ts i = ts j -> i = j.
  Proof. intros Hi Hj E. rewrite <- (ts_inv i Hi), <- (ts_inv j Hj). now rewrite E. Qed.

  Lemma ts_eqb i j : i < 64 -> j < 64 -> (ts i =? ts j) = (i =? j).
  Proof.
    intros Hi Hj. destruct (N.eqb_spec i j) as [->|Hne]; [apply N.eqb_refl|]. apply N.eqb_neq. intros E. apply Hne. now apply ts_inj.
  Qed.

  (* neighbourhoods *)
  Lemma existsb_nbrs_sym (P P' : N -> bool) i : i < 64 -> (forall j, j < 64 -> P' (ts j) = P j) ->
    existsb P' (nbrs (ts i)) = existsb P (nbrs i).
  Proof.
    intros Hi HP. rewrite !existsb_nbrs. rewrite <- (or4 (fun d => opt_p P' (dst_of (ts i) d))).
    rewrite !dst_sym by exact Hi.
    assert (forall d, opt_p P' (option_map ts (dst_of i d)) = opt_p P (dst_of i d)) as E.
    { intros d. destruct (dst_of i d) as [j|] eqn:Ed; [|reflexivity]. cbn. apply HP. now apply (dst_lt64 i d j). }
    now rewrite !E.
  Qed.

  Section Cells.
    Variables c c' : cellf.
    Hypothesis Im : img c c'.

    Lemma occupied_sym j : j < 64 -> occupied c' (ts j) = occupied c j.
    Proof. intros Hj. unfold occupied. rewrite (Im j Hj). destruct (c j); reflexivity. Qed.

    Lemma friend_sym o j : j < 64 -> friend_at c' (tw o) (ts j) = friend_at c o j.
    Proof. intros Hj. unfold friend_at. rewrite (Im j Hj). destruct (c j) as [[o' k]|]; cbn; [apply tw_eqb|reflexivity]. Qed.

    Lemma has_friend_sym o j : j < 64 -> has_friend_nbr c' (tw o) (ts j) = has_friend_nbr c o j.
    Proof. intros Hj. unfold has_friend_nbr. apply existsb_nbrs_sym; [exact Hj|]. intros n Hn. now apply friend_sym. Qed.

    Lemma frozen_sym j : j < 64 -> frozen c' (ts j) = frozen c j.
    Proof.
      intros Hj. unfold frozen. rewrite (Im j Hj). destruct (c j) as [[o k]|]; cbn [tcontent option_map fst snd]; [|reflexivity].
      rewrite has_friend_sym by exact Hj. f_equal. unfold has_stronger_enemy_nbr.
      apply existsb_nbrs_sym; [exact Hj|]. intros n Hn. rewrite (Im n Hn). destruct (c n) as [[o' k']|]; cbn; [now rewrite tw_eqb|reflexivity].
    Qed.

    Lemma unsupported_sym j : j < 64 -> unsupported_on_trap c' (ts j) = unsupported_on_trap c j.
    Proof.
      intros Hj. unfold unsupported_on_trap. rewrite trap_sym, (Im j Hj) by exact Hj.
      destruct (c j) as [[o k]|]; cbn [tcontent option_map fst snd]; [|reflexivity]. now rewrite has_friend_sym.
    Qed.

    Lemma own_step_sym m i d : i < 64 -> own_step_ok c' (tw m) (ts i) (td d) = own_step_ok c m i d.
    Proof.
      intros Hi. unfold own_step_ok. rewrite (Im i Hi), dst_sym by exact Hi.
      destruct (c i) as [[o k]|]; cbn [tcontent option_map fst snd]; [|reflexivity].
      destruct (dst_of i d) as [t|] eqn:Ed; cbn [option_map]; [|reflexivity].
      rewrite tw_eqb, occupied_sym, frozen_sym by (try exact Hi; now apply (dst_lt64 i d t)).
      destruct k; try reflexivity. now rewrite back_sym.
    Qed.

    Lemma push_start_sym m i d : i < 64 -> push_start_ok c' (tw m) (ts i) (td d) = push_start_ok c m i d.
    Proof.
      intros Hi. unfold push_start_ok. rewrite (Im i Hi), dst_sym by exact Hi.
      destruct (c i) as [[o k]|]; cbn [tcontent option_map fst snd]; [|reflexivity].
      destruct (dst_of i d) as [t|] eqn:Ed; cbn [option_map]; [|reflexivity].
      rewrite tw_eqb, occupied_sym by now apply (dst_lt64 i d t). f_equal.
      apply existsb_nbrs_sym; [exact Hi|]. intros n Hn. rewrite (Im n Hn), frozen_sym by exact Hn.
      destruct (c n) as [[o' k']|]; cbn; [now rewrite tw_eqb|reflexivity].
    Qed.

    Lemma pull_finish_sym m st i d : i < 64 -> (match st with SPull sq _ => sq < 64 | _ => True end) ->
      pull_finish_ok c' (tw m) (tst st) (ts i) (td d) = pull_finish_ok c m st i d.
    Proof.
      intros Hi Hst. unfold pull_finish_ok. destruct st as [|sq k0|sq k0]; cbn [tst]; try reflexivity.
      rewrite (Im i Hi), dst_sym by exact Hi.
      destruct (c i) as [[o k]|]; cbn [tcontent option_map fst snd]; [|reflexivity].
      destruct (dst_of i d) as [t|] eqn:Ed; cbn [option_map]; [|reflexivity].
      rewrite tw_eqb, ts_eqb by (try exact Hst; now apply (dst_lt64 i d t)). reflexivity.
    Qed.

    Lemma push_finish_sym m sq k0 i d : i < 64 -> sq < 64 ->
      push_finish_ok c' (tw m) (ts sq) k0 (ts i) (td d) = push_finish_ok c m sq k0 i d.
    Proof.
      intros Hi Hsq. unfold push_finish_ok. rewrite (Im i Hi), dst_sym by exact Hi.
      destruct (c i) as [[o k]|]; cbn [tcontent option_map fst snd]; [|reflexivity].
      destruct (dst_of i d) as [t|] eqn:Ed; cbn [option_map]; [|reflexivity].
      rewrite tw_eqb, ts_eqb, frozen_sym by (try exact Hsq; try exact Hi; now apply (dst_lt64 i d t)). reflexivity.
    Qed.

    Definition st_ok (st : sstatus) : Prop := match st with SNone => True | SPull sq _ => sq < 64 | SPush sq _ => sq < 64 end.

    (* the step automaton is symmetric *)
    Theorem spec_move_sym m stp st i d : i < 64 -> st_ok st ->
      spec_move_ok c' (tw m) stp (tst st) (ts i) (td d) = spec_move_ok c m stp st i d.
    Proof.
      intros Hi Hst. unfold spec_move_ok. destruct st as [|sq k0|sq k0]; cbn [tst].
      - rewrite own_step_sym, push_start_sym by exact Hi. reflexivity.
      - rewrite own_step_sym, push_start_sym by exact Hi. rewrite <- (pull_finish_sym m (SPull sq k0) i d Hi Hst). reflexivity.
      - now apply push_finish_sym.
    Qed.

    Theorem spec_next_status_sym m st i d : i < 64 -> st_ok st ->
      spec_next_status c' (tw m) (tst st) (ts i) (td d) = tst (spec_next_status c m st i d).
    Proof.
      intros Hi Hst. unfold spec_next_status. rewrite (Im i Hi).
      destruct (c i) as [[o k]|] eqn:Ci; cbn [tcontent option_map fst snd]; [|reflexivity].
      rewrite tw_eqb. destruct (Bool.eqb o m); cbn [negb].
      - destruct st; cbn [tst]; try reflexivity; destruct k; reflexivity.
      - rewrite pull_finish_sym; [|exact Hi|destruct st; cbn in *; auto].
        destruct (pull_finish_ok c m st i d); reflexivity.
    Qed.

    (* the board after a step *)
    Lemma moved_img i t : i < 64 -> t < 64 -> img (moved c i t) (moved c' (ts i) (ts t)).
    Proof.
      intros Hi Ht j Hj. unfold moved. rewrite !ts_eqb by assumption.
      destruct (j =? t); [now apply Im|]. destruct (j =? i); [reflexivity|now apply Im].
    Qed.
  End Cells.

  Lemma captures_img c c' : img c c' -> img (after_captures c) (after_captures c').
  Proof.
    intros Im j Hj. unfold after_captures. rewrite (unsupported_sym c c' Im j Hj).
    destruct (unsupported_on_trap c j); [reflexivity|now apply Im].
  Qed.

  Theorem spec_step_img c c' i d t : img c c' -> i < 64 -> dst_of i d = Some t ->
    img (after_captures (moved c i t)) (after_captures (moved c' (ts i) (ts t))).
  Proof. intros Im Hi Hd. apply captures_img, moved_img; [exact Im|exact Hi|now apply (dst_lt64 i d t)]. Qed.

  (* ---- transfer to the engine through T1 ---- *)
  Record SymStates (s s' : state) (pp pp' : play) : Prop := {
    sy_inv : PlayInv s pp;
    sy_inv' : PlayInv s' pp';
    sy_cells : img (cell (board s)) (cell (board s'));
    sy_side : side s' = tw (side s);
    sy_step : step_of pp' = step_of pp;
    sy_status : sstatus_of (pstate pp') = tst (sstatus_of (pstate pp));
  }.

  Lemma st_ok_of s pp : PlayInv s pp -> st_ok (sstatus_of (pstate pp)).
  Proof. intros Inv. pose proof (inv_status s pp Inv) as H. destruct (pstate pp); cbn in *; tauto. Qed.

  (* C11: rule-only offered actions are mapped to offered actions, in both directions *)
  Theorem offered_sym s s' pp pp' i d : SymStates s s' pp pp' -> i < 64 ->
    (In (Move i d) (valid_actions_no_rep s) <-> In (Move (ts i) (td d)) (valid_actions_no_rep s')).
  Proof.
    intros [Inv Inv' Im Sd Stp Sst] Hi.
    destruct Inv as [H1 H2 H3 H4 H5]. destruct Inv' as [H1' H2' H3' H4' H5'].
    rewrite (T1_move s pp H1 H2 (status_inv_ok _ _ _ H5) i d), (T1_move s' pp' H1' H2' (status_inv_ok _ _ _ H5') (ts i) (td d)).
    rewrite Sd, Stp, Sst, (spec_move_sym _ _ Im); [|exact Hi|].
    - split; intros [_ H]; split; auto.
    - pose proof H5 as X. destruct (pstate pp); cbn in *; tauto.
  Qed.

  Theorem pass_sym s s' pp pp' : SymStates s s' pp pp' ->
    (In Pass (valid_actions_no_rep s) <-> In Pass (valid_actions_no_rep s')).
  Proof.
    intros [Inv Inv' Im Sd Stp Sst].
    destruct Inv as [H1 H2 H3 H4 H5]. destruct Inv' as [H1' H2' H3' H4' H5'].
    rewrite (T1_pass s pp H1 H2 (status_inv_ok _ _ _ H5)), (T1_pass s' pp' H1' H2' (status_inv_ok _ _ _ H5')).
    rewrite Stp, Sst. destruct (sstatus_of (pstate pp)); reflexivity.
  Qed.

  (* C11: applying corresponding offered steps leads to corresponding states (boards, side, step, status) *)
  Theorem step_sym s s' pp pp' i d : SymStates s s' pp pp' -> In (Move i d) (valid_actions_no_rep s) ->
    move_no s < P64 -> move_no s' < P64 -> step_of pp < 3 ->
    exists pp2 pp2', SymStates (take_action s (Move i d)) (take_action s' (Move (ts i) (td d))) pp2 pp2'.
  Proof.
    intros Sy Off Hm Hm' H3. pose proof Sy as [Inv Inv' Im Sd Stp Sst].
    pose proof (offered_move_pre s pp i d Inv Off) as [Hi (t & o & k & Hd & Hc & Ht)].
    assert (In (Move (ts i) (td d)) (valid_actions_no_rep s')) as Off' by (now apply (offered_sym s s' pp pp' i d Sy Hi)).
    destruct (move_preserves s pp i d Inv Off) as [pp2 Inv2]. destruct (move_preserves s' pp' (ts i) (td d) Inv' Off') as [pp2' Inv2'].
    exists pp2, pp2'.
    pose proof (step_mid s pp i d (inv_phase s pp Inv) H3 Hm) as (A1 & _ & q & A3 & A4 & _ & _ & A7). cbv zeta in *.
    assert (step_of pp' < 3) as H3' by now rewrite Stp.
    pose proof (step_mid s' pp' (ts i) (td d) (inv_phase s' pp' Inv') H3' Hm') as (B1 & _ & q' & B3 & B4 & _ & _ & B7). cbv zeta in *.
    pose proof (inv_phase _ pp2 Inv2) as P2. rewrite A3 in P2. injection P2 as <-.
    pose proof (inv_phase _ pp2' Inv2') as P2'. rewrite B3 in P2'. injection P2' as <-.
    assert (dst_of (ts i) (td d) = Some (ts t)) as Hd' by (rewrite dst_sym by exact Hi; now rewrite Hd).
    assert (t < 64) as Ht64 by now apply (dst_lt64 i d t).
    constructor; auto.
    - (* boards *)
      intros j Hj.
      cbn [take_action]. rewrite (move_piece_unfold s pp i d (inv_phase s pp Inv)), (move_piece_unfold s' pp' (ts i) (td d) (inv_phase s' pp' Inv')).
      cbv zeta. cbn [board].
      rewrite (take_move_cell (board s) i d t j (inv_board s pp Inv) Hi Hd Ht Hj).
      assert (cell (board s') (ts t) = None) as Ht' by (rewrite (Im t Ht64), Ht; reflexivity).
      rewrite (take_move_cell (board s') (ts i) (td d) (ts t) (ts j) (inv_board s' pp' Inv') (ts_lt i Hi) Hd' Ht' (ts_lt j Hj)).
      now apply (spec_step_img _ _ i d t Im Hi Hd).
    - now rewrite A1, B1.
    - now rewrite A4, B4, Stp.
    - rewrite A7, B7.
      assert (cell (board s') (ts i) = Some (tw o, k)) as Hc' by (rewrite (Im i Hi), Hc; reflexivity).
      rewrite (next_status_spec s pp i d t o k Inv Hi Hd Hc), (next_status_spec s' pp' (ts i) (td d) (ts t) (tw o) k Inv' (ts_lt i Hi) Hd' Hc').
      rewrite Sd, Sst. apply spec_next_status_sym; [exact Im|exact Hi|now apply (st_ok_of s pp)].
  Qed.

  (* C11: the capture preview of corresponding steps names corresponding pieces *)
  Lemma after_step_cell s pp i d t j : PlayInv s pp -> In (Move i d) (valid_actions_no_rep s) -> dst_of i d = Some t -> j < 64 ->
    cell (board (take_action s (Move i d))) j = after_captures (moved (cell (board s)) i t) j.
  Proof.
    intros Inv Off Hd Hj. pose proof (offered_move_pre s pp i d Inv Off) as [Hi (t' & o0 & k0 & Hd' & Hc & Ht)].
    rewrite Hd in Hd'. injection Hd' as <-.
    cbn [take_action]. rewrite (move_piece_unfold s pp i d (inv_phase s pp Inv)). cbv zeta. cbn [board].
    now rewrite (take_move_cell (board s) i d t j (inv_board s pp Inv) Hi Hd Ht Hj).
  Qed.

  Definition tprev (x : option (square * piece * bool)) : option (square * piece * bool) :=
    option_map (fun x => (ts (fst (fst x)), snd (fst x), tw (snd x))) x.

  Theorem preview_sym s s' pp pp' i d : SymStates s s' pp pp' -> In (Move i d) (valid_actions_no_rep s) ->
    legal_traps (cell (board s)) ->
    trapped_animal_for_action s' (Move (ts i) (td d)) = tprev (trapped_animal_for_action s (Move i d)).
  Proof.
    intros Sy Off Leg. pose proof Sy as [Inv Inv' Im Sd Stp Sst].
    pose proof (offered_move_pre s pp i d Inv Off) as [Hi (t & o0 & k0 & Hd & Hc & Ht)].
    assert (In (Move (ts i) (td d)) (valid_actions_no_rep s')) as Off' by (now apply (offered_sym s s' pp pp' i d Sy Hi)).
    assert (t < 64) as Ht64 by now apply (dst_lt64 i d t).
    assert (dst_of (ts i) (td d) = Some (ts t)) as Hd' by (rewrite dst_sym by exact Hi; now rewrite Hd).
    set (c := cell (board s)) in *. set (c' := cell (board s')) in *.
    pose proof (moved_img c c' Im i t Hi Ht64) as Im1.
    assert (forall j, j < 64 -> unsupported_on_trap (moved c' (ts i) (ts t)) (ts j) = unsupported_on_trap (moved c i t) j) as US
      by (intros j Hj; now apply unsupported_sym).
    destruct (trapped_animal_for_action s' (Move (ts i) (td d))) as [[[j' k'] o']|] eqn:P'.
    - destruct (preview_some s' pp' (ts i) (td d) Inv' Off' (ts t) j' k' o' Hd' P') as (Hj' & U' & M' & _).
      fold c' in U', M'.
      set (j := ts j'). assert (j < 64) as Hj by now apply ts_lt. assert (ts j = j') as Ej by now apply ts_inv.
      rewrite <- Ej in U', M'. rewrite (US j Hj) in U'. rewrite (Im1 j Hj) in M'.
      destruct (moved c i t j) as [[o k]|] eqn:M; [|discriminate]. cbn in M'. injection M' as Eo Ek.
      destruct (trapped_animal_for_action s (Move i d)) as [[[j2 k2] o2]|] eqn:P.
      + destruct (preview_some s pp i d Inv Off t j2 k2 o2 Hd P) as (Hj2 & U2 & M2 & _). fold c in U2, M2.
        assert (j = j2) as <- by (apply (one_capture c i d t j j2 Hi Hd Ht Leg Hj Hj2 U' U2)).
        rewrite M in M2. injection M2 as <- <-. cbn. now rewrite Ej, Eo, Ek.
      + exfalso. pose proof (proj1 (preview_none s pp i d Inv Off t Hd) P j Hj) as N. fold c in N.
        rewrite (after_step_cell s pp i d t j Inv Off Hd Hj) in N. fold c in N. unfold after_captures in N. rewrite U', M in N. discriminate.
    - destruct (trapped_animal_for_action s (Move i d)) as [[[j2 k2] o2]|] eqn:P; [exfalso|reflexivity].
      destruct (preview_some s pp i d Inv Off t j2 k2 o2 Hd P) as (Hj2 & U2 & M2 & _). fold c in U2, M2.
      pose proof (proj1 (preview_none s' pp' (ts i) (td d) Inv' Off' (ts t) Hd') P' (ts j2) (ts_lt j2 Hj2)) as N. fold c' in N.
      rewrite (after_step_cell s' pp' (ts i) (td d) (ts t) (ts j2) Inv' Off' Hd' (ts_lt j2 Hj2)) in N. fold c' in N.
      unfold after_captures in N. rewrite (US j2 Hj2), U2, (Im1 j2 Hj2), M2 in N. discriminate.
  Qed.

  (* C11: results at turn start are mapped to the correspondingly swapped results *)
  Hypothesis goal_sym : forall j o, j < 64 ->
    (row_of (ts j) =? (if tw o then 0 else 7)) = (row_of j =? (if o then 0 else 7)).
  Hypothesis ts_onto : forall P : N -> bool, existsb (fun j => P (ts j)) sq64 = existsb P sq64.

  Definition tres (r : option result) : option result :=
    match r with Some x => Some (match x with RGold => win_for (tw true) | RSilver => win_for (tw false) end) | None => None end.

  Lemma rabbit_sym c c' o r r' : img c c' -> (forall j, j < 64 -> (row_of (ts j) =? r') = (row_of j =? r)) ->
    rabbit_on_row c' (tw o) r' = rabbit_on_row c o r.
  Proof.
    intros Im Hr. unfold rabbit_on_row, exists_sq. rewrite <- ts_onto. apply existsb_ext_in. intros j Hj. apply In_sq64 in Hj.
    rewrite Hr, (Im j Hj) by exact Hj. destruct (c j) as [[o' []]|]; cbn; try reflexivity. now rewrite tw_eqb.
  Qed.

  Lemma has_rabbit_sym c c' o : img c c' -> has_rabbit c' (tw o) = has_rabbit c o.
  Proof.
    intros Im. unfold has_rabbit, exists_sq. rewrite <- ts_onto. apply existsb_ext_in. intros j Hj. apply In_sq64 in Hj.
    rewrite (Im j Hj). destruct (c j) as [[o' []]|]; cbn; try reflexivity. now rewrite tw_eqb.
  Qed.

  Lemma goal_reached_sym c c' o : img c c' -> goal_reached c' (tw o) = goal_reached c o.
  Proof. intros Im. unfold goal_reached. apply rabbit_sym; [exact Im|]. intros j Hj. now apply goal_sym. Qed.

  Hypothesis tw_negb : forall o, tw (negb o) = negb (tw o).

  Theorem spec_result_sym c c' m cm : img c c' -> spec_result c' (tw m) cm = tres (spec_result c m cm).
  Proof.
    intros Im. unfold spec_result. rewrite <- !tw_negb.
    rewrite !(goal_reached_sym c c'), !(has_rabbit_sym c c') by exact Im.
    destruct (goal_reached c (negb m)), (goal_reached c m), (has_rabbit c m), (has_rabbit c (negb m)), cm; cbn [negb tres];
      try reflexivity; destruct m; cbn [negb win_for]; reflexivity.
  Qed.

  Theorem result_sym s s' pp pp' : SymStates s s' pp pp' -> step_of pp = 0 ->
    nonempty (valid_actions s') = nonempty (valid_actions s) ->
    is_terminal s' = term_of (tres (spec_result (cell (board s)) (side s) (nonempty (valid_actions s)))) /\
    is_terminal s = term_of (spec_result (cell (board s)) (side s) (nonempty (valid_actions s))).
  Proof.
    intros [Inv Inv' Im Sd Stp Sst] S0 NE. split.
    - rewrite (result_order s' pp' Inv') by now rewrite Stp. rewrite NE, Sd. now rewrite (spec_result_sym _ _ _ _ Im).
    - now apply (result_order s pp Inv).
  Qed.

  (* ---- which actions the repetition rules withhold (C11, last clause) ---- *)
  Definition tact (a : action) : action := match a with Move i d => Move (ts i) (td d) | x => x end.

  Lemma tw_inj a b : tw a = tw b -> a = b.
  Proof. intros E. apply eqb_prop. rewrite <- tw_eqb, E. destruct (tw b); reflexivity. Qed.

  Lemma tcontent_inj x y : tcontent x = tcontent y -> x = y.
  Proof.
    destruct x as [[o k]|], y as [[o' k']|]; cbn; try discriminate; auto. intros E. injection E as E ->. now rewrite (tw_inj _ _ E).
  Qed.

  Lemma beq_img (c1 c2 c1' c2' : cellf) : img c1 c1' -> img c2 c2' ->
    ((forall i, i < 64 -> c1 i = c2 i) <-> (forall i, i < 64 -> c1' i = c2' i)).
  Proof.
    intros I1 I2. split; intros H i Hi.
    - rewrite <- (ts_inv i Hi). rewrite (I1 _ (ts_lt i Hi)), (I2 _ (ts_lt i Hi)). now rewrite H by now apply ts_lt.
    - apply tcontent_inj. rewrite <- (I1 i Hi), <- (I2 i Hi). apply H. now apply ts_lt.
  Qed.

  Definition pimg (x x' : pos) : Prop := img (cell (fst x)) (cell (fst x')) /\ snd x' = tw (snd x).

  Lemma peq_img x y x' y' : pimg x x' -> pimg y y' -> (peq x y <-> peq x' y').
  Proof.
    intros [I1 S1] [I2 S2]. unfold peq, beq. rewrite (beq_img _ _ _ _ I1 I2). rewrite S1, S2.
    split; intros [A B]; split; auto; [now rewrite B|now apply tw_inj].
  Qed.

  Lemma count_img (R : pos -> pos -> Prop) (f f' : pos -> bool) G G' : Forall2 R G G' ->
    (forall x x', In x G -> In x' G' -> R x x' -> f' x' = true -> f x = true) ->
    (length (filter f' G') <= length (filter f G))%nat.
  Proof.
    induction 1 as [|x x' G G' Hx HG IH]; intros Hf; [apply le_n|]. cbn [filter].
    assert (length (filter f' G') <= length (filter f G))%nat as IH' by (apply IH; intros y y' Hy Hy'; apply Hf; now right).
    destruct (f' x') eqn:F'.
    - rewrite (Hf x x' (or_introl eq_refl) (or_introl eq_refl) Hx F'). cbn [length]. lia.
    - destruct (f x); cbn [length]; lia.
  Qed.

  Record SymRep (s s' : state) (pp pp' : play) (G G' : list pos) (b0 b0' : pbs) : Prop := {
    sr_states : SymStates s s' pp pp';
    sr_rep : RepInv s pp G b0;
    sr_rep' : RepInv s' pp' G' b0';
    sr_G : Forall2 pimg G G';
    sr_b0 : img (cell b0) (cell b0');
    sr_trapped : trapped pp' = trapped pp;
  }.

  (* the engine-independent core: if the exact rule (positions, not hashes) allows the turn end on one side, the
     hash test cannot withhold it on the other side unless a collision is involved there *)
  Lemma no_violation_transfers s s' (G G' : list pos) b0 b0' nb nb' :
    side s' = tw (side s) -> Forall2 pimg G G' -> img (cell b0) (cell b0') -> img (cell nb) (cell nb') ->
    NoCollisionAt s' G' b0' nb' ->
    (~ beq nb b0 /\ forall f, (forall x, In x G -> f x = true -> peq x (nb, negb (side s))) -> (length (filter f G) <= 1)%nat) ->
    (z_from_piece_board nb' (side s') 0 = z_from_piece_board b0' (side s') 0 \/
     (2 <= length (filter (fun x => (z_from_piece_board nb' (negb (side s')) 0 =? hpos x)%N) G'))%nat) -> False.
  Proof.
    intros Sd HG Ib0 Inb [NC1 NC2] [NB Cnt] [V|V].
    - apply NB. unfold beq. apply (proj2 (beq_img _ _ _ _ Inb Ib0)). exact (NC1 V).
    - assert (pimg (nb, negb (side s)) (nb', negb (side s'))) as PI by (split; [exact Inb|cbn [snd]; now rewrite Sd, tw_negb]).
      pose proof (count_img pimg (fun x => peqb x (nb, negb (side s))) (fun x => (z_from_piece_board nb' (negb (side s')) 0 =? hpos x)%N) G G' HG) as C.
      specialize (Cnt (fun x => peqb x (nb, negb (side s))) (fun x _ H => peqb_peq _ _ H)).
      assert (length (filter (fun x => (z_from_piece_board nb' (negb (side s')) 0 =? hpos x)%N) G') <=
              length (filter (fun x => peqb x (nb, negb (side s))) G))%nat as C'.
      { apply C. intros x x' Hx Hx' Px F. apply N.eqb_eq in F. apply peqb_true.
        apply (proj2 (peq_img x (nb, negb (side s)) x' (nb', negb (side s')) Px PI)). apply NC2; [exact Hx'|now symmetry]. }
      lia.
  Qed.

  Lemma Forall2_flip' {A B} (R : A -> B -> Prop) l l' : Forall2 R l l' -> Forall2 (fun a b => R b a) l' l.
  Proof. induction 1; constructor; auto. Qed.

  Lemma no_violation_transfers_rev s s' (G G' : list pos) b0 b0' nb nb' :
    side s' = tw (side s) -> Forall2 pimg G G' -> img (cell b0) (cell b0') -> img (cell nb) (cell nb') ->
    NoCollisionAt s G b0 nb ->
    (~ beq nb' b0' /\ forall f, (forall x, In x G' -> f x = true -> peq x (nb', negb (side s'))) -> (length (filter f G') <= 1)%nat) ->
    (z_from_piece_board nb (side s) 0 = z_from_piece_board b0 (side s) 0 \/
     (2 <= length (filter (fun x => (z_from_piece_board nb (negb (side s)) 0 =? hpos x)%N) G))%nat) -> False.
  Proof.
    intros Sd HG Ib0 Inb [NC1 NC2] [NB Cnt] [V|V].
    - apply NB. unfold beq. apply (proj1 (beq_img _ _ _ _ Inb Ib0)). exact (NC1 V).
    - assert (pimg (nb, negb (side s)) (nb', negb (side s'))) as PI by (split; [exact Inb|cbn [snd]; now rewrite Sd, tw_negb]).
      pose proof (count_img (fun a b => pimg b a) (fun x => peqb x (nb', negb (side s'))) (fun x => (z_from_piece_board nb (negb (side s)) 0 =? hpos x)%N) G' G
                    (Forall2_flip' _ _ _ HG)) as C.
      specialize (Cnt (fun x => peqb x (nb', negb (side s'))) (fun x _ H => peqb_peq _ _ H)).
      assert (length (filter (fun x => (z_from_piece_board nb (negb (side s)) 0 =? hpos x)%N) G) <=
              length (filter (fun x => peqb x (nb', negb (side s'))) G'))%nat as C'.
      { apply C. intros x' x Hx' Hx Px F. apply N.eqb_eq in F. apply peqb_true.
        apply (proj1 (peq_img x (nb, negb (side s)) x' (nb', negb (side s')) Px PI)). apply NC2; [exact Hx|now symmetry]. }
      lia.
  Qed.

  (* a pass is offered by the repetition-checked list on one side iff on the other *)
  Theorem pass_rep_sym s s' pp pp' G G' b0 b0' : SymRep s s' pp pp' G G' b0 b0' ->
    NoCollisionAt s G b0 (board s) -> NoCollisionAt s' G' b0' (board s') ->
    (In Pass (valid_actions s) <-> In Pass (valid_actions s')).
  Proof.
    intros [Sy RI RI' HG Ib0 Tr] NC NC'. pose proof Sy as [Inv Inv' Im Sd Stp Sst]. split; intros Off.
    - assert (In Pass (valid_actions_no_rep s)) as OffN by (rewrite (valid_is_filter s pp Inv) in Off; now apply filter_In in Off).
      assert (In Pass (valid_actions_no_rep s')) as OffN' by now apply (pass_sym s s' pp pp' Sy).
      destruct (can_pass s' true) eqn:CP; [now apply (can_pass_rep_iff s' pp' Inv')|exfalso].
      assert (~ In Pass (valid_actions s')) as NotV by (intros X; apply (can_pass_rep_iff s' pp' Inv') in X; congruence).
      pose proof (withheld_pass_exact_hash s' pp' G' b0' RI' OffN' NotV) as V.
      exact (no_violation_transfers s s' G G' b0 b0' (board s) (board s') Sd HG Ib0 Im NC' (pass_changes_board s pp G b0 RI Off) V).
    - assert (In Pass (valid_actions_no_rep s')) as OffN' by (rewrite (valid_is_filter s' pp' Inv') in Off; now apply filter_In in Off).
      assert (In Pass (valid_actions_no_rep s)) as OffN by now apply (pass_sym s s' pp pp' Sy).
      destruct (can_pass s true) eqn:CP; [now apply (can_pass_rep_iff s pp Inv)|exfalso].
      assert (~ In Pass (valid_actions s)) as NotV by (intros X; apply (can_pass_rep_iff s pp Inv) in X; congruence).
      pose proof (withheld_pass_exact_hash s pp G b0 RI OffN NotV) as V.
      exact (no_violation_transfers_rev s s' G G' b0 b0' (board s) (board s') Sd HG Ib0 Im NC (pass_changes_board s' pp' G' b0' RI' Off) V).
  Qed.

  Lemma step_boards_img s s' pp pp' i d : SymStates s s' pp pp' -> In (Move i d) (valid_actions_no_rep s) ->
    img (cell (board (take_action s (Move i d)))) (cell (board (take_action s' (Move (ts i) (td d))))).
  Proof.
    intros Sy Off. pose proof Sy as [Inv Inv' Im Sd Stp Sst].
    pose proof (offered_move_pre s pp i d Inv Off) as [Hi (t & o0 & k0 & Hd & Hc & Ht)].
    assert (In (Move (ts i) (td d)) (valid_actions_no_rep s')) as Off' by (now apply (offered_sym s s' pp pp' i d Sy Hi)).
    assert (dst_of (ts i) (td d) = Some (ts t)) as Hd' by (rewrite dst_sym by exact Hi; now rewrite Hd).
    intros j Hj. rewrite (after_step_cell s pp i d t j Inv Off Hd Hj).
    rewrite (after_step_cell s' pp' (ts i) (td d) (ts t) (ts j) Inv' Off' Hd' (ts_lt j Hj)).
    now apply (spec_step_img _ _ i d t Im Hi Hd).
  Qed.

  (* a step is offered by the repetition-checked list on one side iff the corresponding step is on the other *)
  Theorem move_rep_sym s s' pp pp' G G' b0 b0' i d : SymRep s s' pp pp' G G' b0 b0' -> i < 64 ->
    NoCollisionAt s G b0 (board (take_action s (Move i d))) ->
    NoCollisionAt s' G' b0' (board (take_action s' (Move (ts i) (td d)))) ->
    (In (Move i d) (valid_actions s) <-> In (Move (ts i) (td d)) (valid_actions s')).
  Proof.
    intros [Sy RI RI' HG Ib0 Tr] Hi NC NC'. pose proof Sy as [Inv Inv' Im Sd Stp Sst]. split; intros Off.
    - assert (In (Move i d) (valid_actions_no_rep s)) as OffN by (rewrite (valid_is_filter s pp Inv) in Off; now apply filter_In in Off).
      assert (In (Move (ts i) (td d)) (valid_actions_no_rep s')) as OffN' by now apply (offered_sym s s' pp pp' i d Sy Hi).
      destruct (keep s' pp' (Move (ts i) (td d))) eqn:K; [rewrite (valid_is_filter s' pp' Inv'); apply filter_In; tauto|exfalso].
      assert (~ In (Move (ts i) (td d)) (valid_actions s')) as NotV
        by (intros X; rewrite (valid_is_filter s' pp' Inv') in X; apply filter_In in X; destruct X; congruence).
      destruct (withheld_step_exact_hash s' pp' G' b0' (ts i) (td d) RI' OffN' NotV) as (S3 & T & V).
      assert (3 <= step_of pp) as S3' by (rewrite <- Stp; lia). assert (trapped pp = false) as T' by now rewrite <- Tr.
      exact (no_violation_transfers s s' G G' b0 b0' _ _ Sd HG Ib0 (step_boards_img s s' pp pp' i d Sy OffN) NC'
               (fourth_step_changes_board s pp G b0 RI i d Off S3' T') V).
    - assert (In (Move (ts i) (td d)) (valid_actions_no_rep s')) as OffN' by (rewrite (valid_is_filter s' pp' Inv') in Off; now apply filter_In in Off).
      assert (In (Move i d) (valid_actions_no_rep s)) as OffN by now apply (offered_sym s s' pp pp' i d Sy Hi).
      destruct (keep s pp (Move i d)) eqn:K; [rewrite (valid_is_filter s pp Inv); apply filter_In; tauto|exfalso].
      assert (~ In (Move i d) (valid_actions s)) as NotV
        by (intros X; rewrite (valid_is_filter s pp Inv) in X; apply filter_In in X; destruct X; congruence).
      destruct (withheld_step_exact_hash s pp G b0 i d RI OffN NotV) as (S3 & T & V).
      assert (3 <= step_of pp') as S3' by (rewrite Stp; lia). assert (trapped pp' = false) as T' by now rewrite Tr.
      exact (no_violation_transfers_rev s s' G G' b0 b0' _ _ Sd HG Ib0 (step_boards_img s s' pp pp' i d Sy OffN) NC
               (fourth_step_changes_board s' pp' G' b0' RI' (ts i) (td d) Off S3' T') V).
  Qed.

  (* ---- corresponding games stay corresponding (every step, including turn changes and the repetition ghost) ---- *)
  Lemma capture_flag_sym s s' pp pp' i d : SymStates s s' pp pp' -> In (Move i d) (valid_actions_no_rep s) ->
    snd (pb_take_move (board s') (ts i) (td d)) = snd (pb_take_move (board s) i d).
  Proof.
    intros Sy Off. pose proof Sy as [Inv Inv' Im Sd Stp Sst].
    pose proof (offered_move_pre s pp i d Inv Off) as [Hi (t & o0 & k0 & Hd & Hc & Ht)].
    assert (t < 64) as Ht64 by now apply (dst_lt64 i d t).
    assert (dst_of (ts i) (td d) = Some (ts t)) as Hd' by (rewrite dst_sym by exact Hi; now rewrite Hd).
    assert (cell (board s') (ts t) = None) as Ht' by (rewrite (Im t Ht64), Ht; reflexivity).
    pose proof (inv_board s pp Inv) as W. pose proof (inv_board s' pp' Inv') as W'.
    unfold pb_take_move. rewrite !remove_trapped_flag by (eapply move_piece_WFb; eauto).
    rewrite <- (ts_onto (unsupported_on_trap (cell (pb_move_piece (board s') (ts i) (td d))))).
    apply existsb_ext_in. intros j Hj. apply In_sq64 in Hj.
    apply unsupported_sym; [|exact Hj]. intros z Hz.
    rewrite (move_piece_cell (board s') (ts i) (td d) (ts t) (ts z) W' (ts_lt i Hi) Hd' Ht').
    rewrite (move_piece_cell (board s) i d t z W Hi Hd Ht).
    now apply moved_img.
  Qed.

  Lemma symstates_turn_end s s' pp pp' a : SymStates s s' pp pp' -> In a (valid_actions_no_rep s) ->
    (a = Pass \/ exists i d, a = Move i d /\ 3 <= step_of pp) ->
    img (cell (board (take_action s a))) (cell (board (take_action s' (tact a)))) ->
    move_no s + 1 < P64 -> move_no s' + 1 < P64 ->
    In (tact a) (valid_actions_no_rep s') ->
    exists h l h' l', ph (take_action s a) = PlayPhase (play_initial h l) /\ ph (take_action s' (tact a)) = PlayPhase (play_initial h' l') /\
      SymStates (take_action s a) (take_action s' (tact a)) (play_initial h l) (play_initial h' l').
  Proof.
    intros Sy Off Kind ImN Hm Hm' Off'. pose proof Sy as [Inv Inv' Im Sd Stp Sst].
    destruct (action_preserves s pp a Inv Off) as [q Q]. destruct (action_preserves s' pp' (tact a) Inv' Off') as [q' Q'].
    assert (side (take_action s a) = negb (side s) /\ exists h l, ph (take_action s a) = PlayPhase (play_initial h l)) as (S1 & h & l & P1).
    { destruct Kind as [->|(i & d & -> & L)].
      - destruct (pass_turn s pp (inv_phase s pp Inv) Hm) as (A & _ & _ & h & l & B & _). eauto.
      - destruct (step_last s pp i d (inv_phase s pp Inv) L Hm) as (A & _ & h & l & B & _). eauto. }
    assert (side (take_action s' (tact a)) = negb (side s') /\ exists h l, ph (take_action s' (tact a)) = PlayPhase (play_initial h l)) as (S1' & h' & l' & P1').
    { destruct Kind as [->|(i & d & -> & L)]; cbn [tact].
      - destruct (pass_turn s' pp' (inv_phase s' pp' Inv') Hm') as (A & _ & _ & h' & l' & B & _). eauto.
      - assert (3 <= step_of pp') as L' by now rewrite Stp.
        destruct (step_last s' pp' (ts i) (td d) (inv_phase s' pp' Inv') L' Hm') as (A & _ & h' & l' & B & _). eauto. }
    exists h, l, h', l'. split; [exact P1|]. split; [exact P1'|].
    pose proof (inv_phase _ q Q) as E. rewrite P1 in E. injection E as <-.
    pose proof (inv_phase _ q' Q') as E'. rewrite P1' in E'. injection E' as <-.
    constructor; auto.
    now rewrite S1, S1', Sd, tw_negb.
  Qed.

  Definition tghost (s s' : state) (pp pp' : play) (G G' : list pos) (b0 b0' : pbs) (a : action) : Prop :=
    Forall2 pimg (fst (ghost_next s pp G b0 a)) (fst (ghost_next s' pp' G' b0' (tact a))) /\
    img (cell (snd (ghost_next s pp G b0 a))) (cell (snd (ghost_next s' pp' G' b0' (tact a)))).

  Theorem symrep_step s s' pp pp' G G' b0 b0' a : SymRep s s' pp pp' G G' b0 b0' -> In a (valid_actions_no_rep s) ->
    move_no s + 1 < P64 -> move_no s' + 1 < P64 ->
    In (tact a) (valid_actions_no_rep s') /\
    exists pp2 pp2', SymRep (take_action s a) (take_action s' (tact a)) pp2 pp2'
      (fst (ghost_next s pp G b0 a)) (fst (ghost_next s' pp' G' b0' (tact a)))
      (snd (ghost_next s pp G b0 a)) (snd (ghost_next s' pp' G' b0' (tact a))).
  Proof.
    intros [Sy RI RI' HG Ib0 Tr] Off Hm Hm'. pose proof Sy as [Inv Inv' Im Sd Stp Sst].
    pose proof (inv_phase s pp Inv) as Hph. pose proof (inv_phase s' pp' Inv') as Hph'.
    destruct a as [k|i d|].
    - exfalso. destruct Inv as [H1 H2 _ _ H5]. now apply (T1_no_place s pp H1 H2 (status_inv_ok _ _ _ H5) k).
    - pose proof (offered_move_pre s pp i d Inv Off) as [Hi _].
      assert (In (Move (ts i) (td d)) (valid_actions_no_rep s')) as Off' by now apply (offered_sym s s' pp pp' i d Sy Hi).
      split; [exact Off'|].
      pose proof (step_boards_img s s' pp pp' i d Sy Off) as ImN.
      pose proof (capture_flag_sym s s' pp pp' i d Sy Off) as Cap.
      destruct (rep_preserved s pp G b0 (Move i d) RI Off) as [q R2]. destruct (rep_preserved s' pp' G' b0' (Move (ts i) (td d)) RI' Off') as [q' R2'].
      pose proof (inv_phase _ q (hi_play _ q (ri_hash _ _ _ _ R2))) as Pq. pose proof (inv_phase _ q' (hi_play _ q' (ri_hash _ _ _ _ R2'))) as Pq'.
      assert (board (take_action s (Move i d)) = fst (pb_take_move (board s) i d)) as Eb
        by (cbn [take_action]; rewrite (move_piece_unfold s pp i d Hph); reflexivity).
      assert (board (take_action s' (Move (ts i) (td d))) = fst (pb_take_move (board s') (ts i) (td d))) as Eb'
        by (cbn [take_action]; rewrite (move_piece_unfold s' pp' (ts i) (td d) Hph'); reflexivity).
      cbn [tact ghost_next] in *. cbv zeta in *. rewrite Stp, Cap in *.
      destruct (N.leb_spec 3 (step_of pp)) as [L|L]; cbn [fst snd] in *.
      + destruct (symstates_turn_end s s' pp pp' (Move i d) Sy Off (or_intror (ex_intro _ i (ex_intro _ d (conj eq_refl L)))) ImN Hm Hm' Off')
          as (h & l & h' & l' & P1 & P1' & Sy2).
        cbn [tact] in *. rewrite P1 in Pq. injection Pq as <-. rewrite P1' in Pq'. injection Pq' as <-.
        exists (play_initial h l), (play_initial h' l'). constructor; auto.
        * constructor; [split; cbn [fst snd]; [now rewrite <- Eb, <- Eb'|now rewrite Sd, tw_negb]|].
          destruct (snd (pb_take_move (board s) i d)); [constructor|exact HG].
        * now rewrite <- Eb, <- Eb'.
      + assert (move_no s < P64) as Hm0 by lia. assert (move_no s' < P64) as Hm0' by lia.
        destruct (step_sym s s' pp pp' i d Sy Off Hm0 Hm0' L) as (p2 & p2' & Sy2).
        pose proof (inv_phase _ p2 (sy_inv _ _ _ _ Sy2)) as Pp. pose proof (inv_phase _ p2' (sy_inv' _ _ _ _ Sy2)) as Pp'.
        rewrite Pq in Pp. injection Pp as <-. rewrite Pq' in Pp'. injection Pp' as <-.
        exists q, q'. constructor; auto.
        * destruct (snd (pb_take_move (board s) i d)); [constructor|exact HG].
        * destruct (move_fields_mid s pp i d Hph L) as (_ & _ & x & X1 & _ & _ & X4). rewrite Pq in X1. injection X1 as <-.
          assert (step_of pp' < 3) as L' by now rewrite Stp.
          destruct (move_fields_mid s' pp' (ts i) (td d) Hph' L') as (_ & _ & x' & X1' & _ & _ & X4'). rewrite Pq' in X1'. injection X1' as <-.
          now rewrite X4, X4', Tr, Cap.
    - assert (In Pass (valid_actions_no_rep s')) as Off' by now apply (pass_sym s s' pp pp' Sy).
      split; [exact Off'|].
      destruct (rep_preserved s pp G b0 Pass RI Off) as [q R2]. destruct (rep_preserved s' pp' G' b0' Pass RI' Off') as [q' R2'].
      pose proof (inv_phase _ q (hi_play _ q (ri_hash _ _ _ _ R2))) as Pq. pose proof (inv_phase _ q' (hi_play _ q' (ri_hash _ _ _ _ R2'))) as Pq'.
      destruct (pass_fields s pp Hph) as (_ & B1 & _). destruct (pass_fields s' pp' Hph') as (_ & B1' & _).
      assert (img (cell (board (take_action s Pass))) (cell (board (take_action s' Pass)))) as ImN by now rewrite B1, B1'.
      destruct (symstates_turn_end s s' pp pp' Pass Sy Off (or_introl eq_refl) ImN Hm Hm' Off') as (h & l & h' & l' & P1 & P1' & Sy2).
      cbn [tact ghost_next fst snd] in *. rewrite P1 in Pq. injection Pq as <-. rewrite P1' in Pq'. injection Pq' as <-.
      exists (play_initial h l), (play_initial h' l'). constructor; auto.
      constructor; [split; cbn [fst snd]; [exact Im|now rewrite Sd, tw_negb]|exact HG].
  Qed.

  Inductive SymGame : state -> state -> list pos -> list pos -> pbs -> pbs -> Prop :=
  | SG_start s s' : StartPosition s -> StartPosition s' -> img (cell (board s)) (cell (board s')) -> side s' = tw (side s) ->
      legal_traps (cell (board s)) ->
      SymGame s s' [(board s, side s)] [(board s', side s')] (board s) (board s')
  | SG_step s s' pp pp' G G' b0 b0' a : SymGame s s' G G' b0 b0' -> ph s = PlayPhase pp -> ph s' = PlayPhase pp' ->
      In a (valid_actions_no_rep s) -> move_no s + 1 < P64 -> move_no s' + 1 < P64 ->
      SymGame (take_action s a) (take_action s' (tact a))
        (fst (ghost_next s pp G b0 a)) (fst (ghost_next s' pp' G' b0' (tact a)))
        (snd (ghost_next s pp G b0 a)) (snd (ghost_next s' pp' G' b0' (tact a))).

  Theorem symgame_rep s s' G G' b0 b0' : SymGame s s' G G' b0 b0' -> exists pp pp', SymRep s s' pp pp' G G' b0 b0'.
  Proof.
    induction 1 as [s s' Hs Hs' Im Sd _|s s' pp pp' G G' b0 b0' a R IH P P' Off Hm Hm'].
    - destruct (rep_start s Hs) as [pp RI]. destruct (rep_start s' Hs') as [pp' RI'].
      pose proof (hi_play s pp (ri_hash _ _ _ _ RI)) as Inv. pose proof (hi_play s' pp' (ri_hash _ _ _ _ RI')) as Inv'.
      destruct Hs as (h & Ph & _). destruct Hs' as (h' & Ph' & _).
      pose proof (inv_phase s pp Inv) as E. rewrite Ph in E. injection E as <-.
      pose proof (inv_phase s' pp' Inv') as E'. rewrite Ph' in E'. injection E' as <-.
      exists (play_initial h [h]), (play_initial h' [h']). constructor; auto.
      + constructor; auto.
      + constructor; [split; [exact Im|exact Sd]|constructor].
    - destruct IH as (q & q' & SR). pose proof (sr_states _ _ _ _ _ _ _ _ SR) as Sy.
      pose proof (inv_phase s q (sy_inv _ _ _ _ Sy)) as E. rewrite P in E. injection E as <-.
      pose proof (inv_phase s' q' (sy_inv' _ _ _ _ Sy)) as E'. rewrite P' in E'. injection E' as <-.
      exact (proj2 (symrep_step s s' pp pp' G G' b0 b0' a SR Off Hm Hm')).
  Qed.

  Lemma symgame_legal s s' G G' b0 b0' : SymGame s s' G G' b0 b0' -> legal_traps (cell (board s)).
  Proof.
    intros R. induction R as [s s' Hs Hs' Im Sd Leg|s s' pp pp' G G' b0 b0' a R IH P P' Off Hm Hm']; [exact Leg|].
    destruct (symgame_rep _ _ _ _ _ _ R) as (q & q' & SR). pose proof (sr_states _ _ _ _ _ _ _ _ SR) as Sy.
    pose proof (sy_inv _ _ _ _ Sy) as Inv.
    destruct a as [k|i d|].
    - exfalso. destruct Inv as [H1 H2 _ _ H5]. now apply (T1_no_place s q H1 H2 (status_inv_ok _ _ _ H5) k).
    - now apply (step_settles s q i d).
    - destruct (pass_fields s q (inv_phase s q Inv)) as (_ & B1 & _). now rewrite B1.
  Qed.

  (* C11 along whole games: the capture preview of corresponding steps names corresponding pieces *)
  Theorem game_preview s s' G G' b0 b0' i d : SymGame s s' G G' b0 b0' -> In (Move i d) (valid_actions_no_rep s) ->
    trapped_animal_for_action s' (Move (ts i) (td d)) = tprev (trapped_animal_for_action s (Move i d)).
  Proof.
    intros R Off. destruct (symgame_rep _ _ _ _ _ _ R) as (pp & pp' & SR).
    exact (preview_sym s s' pp pp' i d (sr_states _ _ _ _ _ _ _ _ SR) Off (symgame_legal _ _ _ _ _ _ R)).
  Qed.

  (* C11 along whole games: rule-only offered actions correspond *)
  Theorem game_offered s s' G G' b0 b0' a : SymGame s s' G G' b0 b0' ->
    (In a (valid_actions_no_rep s) -> In (tact a) (valid_actions_no_rep s')) /\
    (forall i d, i < 64 -> In (Move (ts i) (td d)) (valid_actions_no_rep s') -> In (Move i d) (valid_actions_no_rep s)) /\
    (In Pass (valid_actions_no_rep s') -> In Pass (valid_actions_no_rep s)).
  Proof.
    intros R. destruct (symgame_rep _ _ _ _ _ _ R) as (pp & pp' & SR). pose proof (sr_states _ _ _ _ _ _ _ _ SR) as Sy. split; [|split].
    - intros Off. destruct a as [k|i d|].
      + exfalso. destruct (sy_inv _ _ _ _ Sy) as [H1 H2 _ _ H5]. now apply (T1_no_place s pp H1 H2 (status_inv_ok _ _ _ H5) k).
      + pose proof (offered_move_pre s pp i d (sy_inv _ _ _ _ Sy) Off) as [Hi _]. now apply (offered_sym s s' pp pp' i d Sy Hi).
      + now apply (pass_sym s s' pp pp' Sy).
    - intros i d Hi Off. now apply (offered_sym s s' pp pp' i d Sy Hi).
    - intros Off. now apply (pass_sym s s' pp pp' Sy).
  Qed.

  (* ... and so do the actions the repetition rules withhold, unless a 64-bit collision is involved on either side *)
  Theorem game_withheld s s' G G' b0 b0' : SymGame s s' G G' b0 b0' ->
    (NoCollisionAt s G b0 (board s) -> NoCollisionAt s' G' b0' (board s') -> (In Pass (valid_actions s) <-> In Pass (valid_actions s'))) /\
    (forall i d, i < 64 -> NoCollisionAt s G b0 (board (take_action s (Move i d))) ->
       NoCollisionAt s' G' b0' (board (take_action s' (Move (ts i) (td d)))) ->
       (In (Move i d) (valid_actions s) <-> In (Move (ts i) (td d)) (valid_actions s'))).
  Proof.
    intros R. destruct (symgame_rep _ _ _ _ _ _ R) as (pp & pp' & SR). split.
    - intros NC NC'. now apply (pass_rep_sym s s' pp pp' G G' b0 b0' SR).
    - intros i d Hi NC NC'. now apply (move_rep_sym s s' pp pp' G G' b0 b0' i d SR Hi).
  Qed.

  (* C11 along whole games: results at turn start correspond (colours swapped by tres), up to collisions *)
  Hypothesis td_inv : forall d, td (td d) = d.

  Definition NoCollisionState (s : state) (G : list pos) (b0 : pbs) : Prop :=
    NoCollisionAt s G b0 (board s) /\ forall i d, NoCollisionAt s G b0 (board (take_action s (Move i d))).

  Lemma nonempty_iff {A} (l l' : list A) : ((exists a, In a l) <-> (exists a, In a l')) -> nonempty l' = nonempty l.
  Proof.
    intros [H1 H2]. destruct l as [|x l], l' as [|y l']; cbn; try reflexivity.
    - destruct (H2 (ex_intro _ y (or_introl eq_refl))) as [a []].
    - destruct (H1 (ex_intro _ x (or_introl eq_refl))) as [a []].
  Qed.

  Theorem game_result s s' G G' b0 b0' pp : SymGame s s' G G' b0 b0' -> ph s = PlayPhase pp -> step_of pp = 0 ->
    NoCollisionState s G b0 -> NoCollisionState s' G' b0' ->
    exists r, is_terminal s = term_of r /\ is_terminal s' = term_of (tres r).
  Proof.
    intros R P S0 [_ NC] [_ NC']. destruct (symgame_rep _ _ _ _ _ _ R) as (q & q' & SR).
    pose proof (sr_states _ _ _ _ _ _ _ _ SR) as Sy. pose proof Sy as [Inv Inv' Im Sd Stp Sst].
    pose proof (inv_phase s q Inv) as E. rewrite P in E. injection E as <-.
    assert (forall st p a, PlayInv st p -> step_of p = 0 -> In a (valid_actions st) -> exists i d, a = Move i d /\ i < 64) as OnlyMoves.
    { intros st p a I0 Z Off. rewrite (valid_is_filter st p I0) in Off. apply filter_In in Off. destruct Off as [Off _].
      destruct a as [k|i d|].
      - exfalso. destruct I0 as [H1 H2 _ _ H5]. now apply (T1_no_place st p H1 H2 (status_inv_ok _ _ _ H5) k).
      - exists i, d. split; [reflexivity|]. now destruct (offered_move_pre st p i d I0 Off).
      - exfalso. destruct I0 as [H1 H2 H3 H4 H5]. apply (T1_pass st p H1 H2 (status_inv_ok _ _ _ H5)) in Off. rewrite Z in Off. unfold spec_pass_ok in Off. cbn in Off. discriminate. }
    assert (nonempty (valid_actions s') = nonempty (valid_actions s)) as NE.
    { apply nonempty_iff. split; intros [a Off].
      - destruct (OnlyMoves s pp a Inv S0 Off) as (i & d & -> & Hi).
        exists (Move (ts i) (td d)). apply (proj2 (game_withheld s s' G G' b0 b0' R) i d Hi (NC i d) (NC' (ts i) (td d))). exact Off.
      - assert (step_of q' = 0) as S0' by now rewrite Stp.
        destruct (OnlyMoves s' q' a Inv' S0' Off) as (j & e & -> & Hj).
        exists (Move (ts j) (td e)).
        apply (proj2 (game_withheld s s' G G' b0 b0' R) (ts j) (td e) (ts_lt j Hj) (NC (ts j) (td e))).
        + rewrite (ts_inv j Hj), td_inv. apply NC'.
        + rewrite (ts_inv j Hj), td_inv. exact Off. }
    destruct (result_sym s s' pp q' Sy S0 NE) as [A B].
    eexists. split; [exact B|exact A].
  Qed.
End Sym.

(* ---- the two generators of the symmetry group ---- *)
Definition mirror_sq (i : N) : N := (i / 8) * 8 + (7 - i mod 8).
Definition mirror_dir (d : dir) : dir := match d with Left => Right | Right => Left | x => x end.
Definition flip_sq (i : N) : N := (7 - i / 8) * 8 + i mod 8.
Definition flip_dir (d : dir) : dir := match d with Up => Down | Down => Up | x => x end.

Definition sym_facts (ts : N -> N) (td : dir -> dir) (tw : bool -> bool) : bool :=
  forallb (fun i => (ts i <? 64) && (ts (ts i) =? i) && Bool.eqb (is_trap (ts i)) (is_trap i) &&
                    forallb (fun d => match dst_of (ts i) (td d), dst_of i d with
                                      | Some a, Some b => a =? ts b | None, None => true | _, _ => false end) all_dirs_list &&
                    forallb (fun o => Bool.eqb (row_of (ts i) =? (if tw o then 0 else 7)) (row_of i =? (if o then 0 else 7))) [true; false] &&
                    existsb (fun j => ts j =? i) sq64) sq64.

Lemma mirror_facts : sym_facts mirror_sq mirror_dir (fun o => o) = true.
Proof. vm_compute. reflexivity. Qed.
Lemma flip_facts : sym_facts flip_sq flip_dir negb = true.
Proof. vm_compute. reflexivity. Qed.

Section Facts.
  Variable ts : N -> N.
  Variable td : dir -> dir.
  Variable tw : bool -> bool.
  Hypothesis F : sym_facts ts td tw = true.

  Lemma facts_at i : i < 64 ->
    ts i < 64 /\ ts (ts i) = i /\ is_trap (ts i) = is_trap i /\
    (forall d, dst_of (ts i) (td d) = option_map ts (dst_of i d)) /\
    (forall o, (row_of (ts i) =? (if tw o then 0 else 7)) = (row_of i =? (if o then 0 else 7))) /\
    (exists j, j < 64 /\ ts j = i).
  Proof.
    intros Hi. pose proof (forall_sq64 _ F i Hi) as S. cbv beta in S.
    apply andb_prop in S. destruct S as [S S6]. apply andb_prop in S. destruct S as [S S5]. apply andb_prop in S. destruct S as [S S4].
    apply andb_prop in S. destruct S as [S S3]. apply andb_prop in S. destruct S as [S1 S2].
    apply N.ltb_lt in S1. apply N.eqb_eq in S2. apply eqb_prop in S3.
    split; [exact S1|]. split; [exact S2|]. split; [exact S3|]. split; [|split].
    - intros d. pose proof (forall_dirs _ S4 d) as D. cbv beta in D.
      destruct (dst_of (ts i) (td d)), (dst_of i d); try discriminate; cbn; [apply N.eqb_eq in D; now subst|reflexivity].
    - intros o. cbn [forallb] in S5. rewrite andb_true_r in S5. apply andb_prop in S5. destruct S5 as [G1 G2].
      destruct o; [now apply eqb_prop in G1|now apply eqb_prop in G2].
    - apply exists_sq64 in S6. destruct S6 as [j [Hj E]]. apply N.eqb_eq in E. eauto.
  Qed.

  Lemma facts_onto (P : N -> bool) : existsb (fun j => P (ts j)) sq64 = existsb P sq64.
  Proof.
    destruct (existsb P sq64) eqn:E.
    - apply exists_sq64 in E. destruct E as [i [Hi Pi]]. destruct (facts_at i Hi) as (_ & _ & _ & _ & _ & j & Hj & Ej).
      apply exists_sq64. exists j. split; [exact Hj|]. now rewrite Ej.
    - apply not_true_iff_false. intros T. apply exists_sq64 in T. destruct T as [j [Hj Pj]].
      assert (existsb P sq64 = true) as X by (apply exists_sq64; exists (ts j); split; [apply (facts_at j Hj)|exact Pj]). congruence.
  Qed.
End Facts.

(* C11 for the file mirror *)
Section Mirror.
  Let ts := mirror_sq. Let td := mirror_dir. Let tw := fun o : bool => o.
  Lemma m_lt i : i < 64 -> ts i < 64. Proof. intros H. apply (facts_at ts td tw mirror_facts i H). Qed.
  Lemma m_inv i : i < 64 -> ts (ts i) = i. Proof. intros H. apply (facts_at ts td tw mirror_facts i H). Qed.
  Lemma m_eqb a b : Bool.eqb (tw a) (tw b) = Bool.eqb a b. Proof. reflexivity. Qed.
  Lemma m_dst i d : i < 64 -> dst_of (ts i) (td d) = option_map ts (dst_of i d). Proof. intros H. apply (facts_at ts td tw mirror_facts i H). Qed.
  Lemma m_or4 (g : dir -> bool) : g (td Up) || g (td Right) || g (td Down) || g (td Left) = g Up || g Right || g Down || g Left.
  Proof. cbn. destruct (g Up), (g Right), (g Down), (g Left); reflexivity. Qed.
  Lemma m_trap i : i < 64 -> is_trap (ts i) = is_trap i. Proof. intros H. apply (facts_at ts td tw mirror_facts i H). Qed.
  Lemma m_back o d : backward (tw o) (td d) = backward o d. Proof. destruct o, d; reflexivity. Qed.
  Lemma m_goal j o : j < 64 -> (row_of (ts j) =? (if tw o then 0 else 7)) = (row_of j =? (if o then 0 else 7)).
  Proof. intros H. apply (facts_at ts td tw mirror_facts j H). Qed.

  Definition mirror_offered := offered_sym ts td tw m_lt m_inv m_eqb m_dst m_or4 m_back.
  Definition mirror_pass := pass_sym ts tw.
  Definition mirror_step := step_sym ts td tw m_lt m_inv m_eqb m_dst m_or4 m_trap m_back.
  Definition mirror_preview := preview_sym ts td tw m_lt m_inv m_eqb m_dst m_or4 m_trap m_back.
  Definition mirror_result := result_sym ts tw m_eqb m_goal (facts_onto ts td tw mirror_facts) (fun o => eq_refl).
  Definition mirror_game_rep := symgame_rep ts td tw m_lt m_inv m_eqb m_dst m_or4 m_trap m_back m_goal (facts_onto ts td tw mirror_facts) (fun o => eq_refl).
  Definition mirror_game_offered := game_offered ts td tw m_lt m_inv m_eqb m_dst m_or4 m_trap m_back m_goal (facts_onto ts td tw mirror_facts) (fun o => eq_refl).
  Definition mirror_game_withheld := game_withheld ts td tw m_lt m_inv m_eqb m_dst m_or4 m_trap m_back m_goal (facts_onto ts td tw mirror_facts) (fun o => eq_refl).
  Lemma m_tdinv d : td (td d) = d. Proof. destruct d; reflexivity. Qed.
  Definition mirror_game_result := game_result ts td tw m_lt m_inv m_eqb m_dst m_or4 m_trap m_back m_goal (facts_onto ts td tw mirror_facts) (fun o => eq_refl) m_tdinv.
  Definition mirror_game_preview := game_preview ts td tw m_lt m_inv m_eqb m_dst m_or4 m_trap m_back m_goal (facts_onto ts td tw mirror_facts) (fun o => eq_refl).
End Mirror.

(* C11 for colour swap with rank flip *)
Section Flip.
  Let ts := flip_sq. Let td := flip_dir. Let tw := negb.
  Lemma f_lt i : i < 64 -> ts i < 64. Proof. intros H. apply (facts_at ts td tw flip_facts i H). Qed.
  Lemma f_inv i : i < 64 -> ts (ts i) = i. Proof. intros H. apply (facts_at ts td tw flip_facts i H). Qed.
  Lemma f_eqb a b : Bool.eqb (tw a) (tw b) = Bool.eqb a b. Proof. destruct a, b; reflexivity. Qed.
  Lemma f_dst i d : i < 64 -> dst_of (ts i) (td d) = option_map ts (dst_of i d). Proof. intros H. apply (facts_at ts td tw flip_facts i H). Qed.
  Lemma f_or4 (g : dir -> bool) : g (td Up) || g (td Right) || g (td Down) || g (td Left) = g Up || g Right || g Down || g Left.
  Proof. cbn. destruct (g Up), (g Right), (g Down), (g Left); reflexivity. Qed.
  Lemma f_trap i : i < 64 -> is_trap (ts i) = is_trap i. Proof. intros H. apply (facts_at ts td tw flip_facts i H). Qed.
  Lemma f_back o d : backward (tw o) (td d) = backward o d. Proof. destruct o, d; reflexivity. Qed.
  Lemma f_goal j o : j < 64 -> (row_of (ts j) =? (if tw o then 0 else 7)) = (row_of j =? (if o then 0 else 7)).
  Proof. intros H. apply (facts_at ts td tw flip_facts j H). Qed.

  Definition flip_offered := offered_sym ts td tw f_lt f_inv f_eqb f_dst f_or4 f_back.
  Definition flip_pass := pass_sym ts tw.
  Definition flip_step := step_sym ts td tw f_lt f_inv f_eqb f_dst f_or4 f_trap f_back.
  Definition flip_preview := preview_sym ts td tw f_lt f_inv f_eqb f_dst f_or4 f_trap f_back.
  Definition flip_result := result_sym ts tw f_eqb f_goal (facts_onto ts td tw flip_facts) (fun o => eq_refl).
  Lemma f_negb o : tw (negb o) = negb (tw o). Proof. reflexivity. Qed.
  Definition flip_game_rep := symgame_rep ts td tw f_lt f_inv f_eqb f_dst f_or4 f_trap f_back f_goal (facts_onto ts td tw flip_facts) f_negb.
  Definition flip_game_offered := game_offered ts td tw f_lt f_inv f_eqb f_dst f_or4 f_trap f_back f_goal (facts_onto ts td tw flip_facts) f_negb.
  Definition flip_game_withheld := game_withheld ts td tw f_lt f_inv f_eqb f_dst f_or4 f_trap f_back f_goal (facts_onto ts td tw flip_facts) f_negb.
  Lemma f_tdinv d : td (td d) = d. Proof. destruct d; reflexivity. Qed.
  Definition flip_game_result := game_result ts td tw f_lt f_inv f_eqb f_dst f_or4 f_trap f_back f_goal (facts_onto ts td tw flip_facts) f_negb f_tdinv.
  Definition flip_game_preview := game_preview ts td tw f_lt f_inv f_eqb f_dst f_or4 f_trap f_back f_goal (facts_onto ts td tw flip_facts) f_negb.
End Flip.
