(* C11: the square-level rules commute with file mirroring and with colour swap + rank flip, and by T1 so do
   the engine's rule-only offered sets, step results, statuses and (by C04) results. *)
From Coq Require Import NArith ZArith List Bool Lia ZifyBool ZifyN.
From Arimaa Require Import Types U64 GenMasks GenEnums GenZobrist Board Zobrist Engine Notation Display Trace Cells Rules Monitors
  Fin XorFold Hash BitLemmas StepLemmas GenLemmas Refine Invariant TurnLemmas Live ResultLemmas Traps.
Import ListNotations.
Open Scope N_scope.
Strategy opaque [bits_of].

Section Sym.
  Variable ts : N -> N.            (* squares *)
  Variable td : dir -> dir.        (* directions *)
  Variable tw : bool -> bool.      (* owners *)
  Hypothesis ts_lt : forall i, i < 64 -> ts i < 64.
  Hypothesis ts_inv : forall i, i < 64 -> ts (ts i) = i.
  Hypothesis tw_eqb : forall a b, Bool.eqb (tw a) (tw b) = Bool.eqb a b.
  Hypothesis dst_sym : forall i d, i < 64 -> dst_of (ts i) (td d) = option_map ts (dst_of i d).
  Hypothesis or4 : forall g : dir -> bool, g (td Up) || g (td Right) || g (td Down) || g (td Left) = g Up || g Right || g Down || g Left.
  Hypothesis trap_sym : forall i, i < 64 -> is_trap (ts i) = is_trap i.
  Hypothesis back_sym : forall o d, backward (tw o) (td d) = backward o d.

  Definition tcontent (x : content) : content := option_map (fun p => (tw (fst p), snd p)) x.
  (* c' is the image of c *)
  Definition img (c c' : cellf) : Prop := forall j, j < 64 -> c' (ts j) = tcontent (c j).

  Definition tst (st : sstatus) : sstatus :=
    match st with SNone => SNone | SPull sq k => SPull (ts sq) k | SPush sq k => SPush (ts sq) k end.

  Lemma ts_inj i j : i < 64 -> j < 64 -> ts i = ts j -> i = j.
  Proof. intros Hi Hj E. rewrite <- (ts_inv i Hi), <- (ts_inv j Hj). now rewrite E. Qed.

  Lemma ts_eqb i j : i < 64 -> j < 64 -> (ts i =? ts j) = (i =? j).
  Proof.
    intros Hi Hj. destruct (N.eqb_spec i j) as [->|Hne]; [apply N.eqb_refl|]. apply N.eqb_neq. intros E. apply Hne. now apply ts_inj.
  Qed.

  (* neighbourhoods *)
  Lemma existsb_nbrs_sym (P P' : N -> bool) i : i < 64 -> (forall j, j < 64 -> P' (ts j) = P j) ->
    existsb P' (nbrs (ts i)) = existsb P (nbrs i).
  Proof.
    intros Hi HP. rewrite !existsb_nbrs. rewrite <- (or4 (fun d => opt_p P' (dst_of (ts i) d))).
    rewrite !dst_sym by exact Hi.
    assert (forall d, opt_p P' (option_map ts (dst_of i d)) = opt_p P (dst_of i d)) as E.
    { intros d. destruct (dst_of i d) as [j|] eqn:Ed; [|reflexivity]. cbn. apply HP. now apply (dst_lt64 i d j). }
    now rewrite !E.
  Qed.

  Section Cells.
    Variables c c' : cellf.
    Hypothesis Im : img c c'.

    Lemma occupied_sym j : j < 64 -> occupied c' (ts j) = occupied c j.
    Proof. intros Hj. unfold occupied. rewrite (Im j Hj). destruct (c j); reflexivity. Qed.

    Lemma friend_sym o j : j < 64 -> friend_at c' (tw o) (ts j) = friend_at c o j.
    Proof. intros Hj. unfold friend_at. rewrite (Im j Hj). destruct (c j) as [[o' k]|]; cbn; [apply tw_eqb|reflexivity]. Qed.

    Lemma has_friend_sym o j : j < 64 -> has_friend_nbr c' (tw o) (ts j) = has_friend_nbr c o j.
    Proof. intros Hj. unfold has_friend_nbr. apply existsb_nbrs_sym; [exact Hj|]. intros n Hn. now apply friend_sym. Qed.

    Lemma frozen_sym j : j < 64 -> frozen c' (ts j) = frozen c j.
    Proof.
      intros Hj. unfold frozen. rewrite (Im j Hj). destruct (c j) as [[o k]|]; cbn [tcontent option_map fst snd]; [|reflexivity].
      rewrite has_friend_sym by exact Hj. f_equal. unfold has_stronger_enemy_nbr.
      apply existsb_nbrs_sym; [exact Hj|]. intros n Hn. rewrite (Im n Hn). destruct (c n) as [[o' k']|]; cbn; [now rewrite tw_eqb|reflexivity].
    Qed.

    Lemma unsupported_sym j : j < 64 -> unsupported_on_trap c' (ts j) = unsupported_on_trap c j.
    Proof.
      intros Hj. unfold unsupported_on_trap. rewrite trap_sym, (Im j Hj) by exact Hj.
      destruct (c j) as [[o k]|]; cbn [tcontent option_map fst snd]; [|reflexivity]. now rewrite has_friend_sym.
    Qed.

    Lemma own_step_sym m i d : i < 64 -> own_step_ok c' (tw m) (ts i) (td d) = own_step_ok c m i d.
    Proof.
      intros Hi. unfold own_step_ok. rewrite (Im i Hi), dst_sym by exact Hi.
      destruct (c i) as [[o k]|]; cbn [tcontent option_map fst snd]; [|reflexivity].
      destruct (dst_of i d) as [t|] eqn:Ed; cbn [option_map]; [|reflexivity].
      rewrite tw_eqb, occupied_sym, frozen_sym by (try exact Hi; now apply (dst_lt64 i d t)).
      destruct k; try reflexivity. now rewrite back_sym.
    Qed.

    Lemma push_start_sym m i d : i < 64 -> push_start_ok c' (tw m) (ts i) (td d) = push_start_ok c m i d.
    Proof.
      intros Hi. unfold push_start_ok. rewrite (Im i Hi), dst_sym by exact Hi.
      destruct (c i) as [[o k]|]; cbn [tcontent option_map fst snd]; [|reflexivity].
      destruct (dst_of i d) as [t|] eqn:Ed; cbn [option_map]; [|reflexivity].
      rewrite tw_eqb, occupied_sym by now apply (dst_lt64 i d t). f_equal.
      apply existsb_nbrs_sym; [exact Hi|]. intros n Hn. rewrite (Im n Hn), frozen_sym by exact Hn.
      destruct (c n) as [[o' k']|]; cbn; [now rewrite tw_eqb|reflexivity].
    Qed.

    Lemma pull_finish_sym m st i d : i < 64 -> (match st with SPull sq _ => sq < 64 | _ => True end) ->
      pull_finish_ok c' (tw m) (tst st) (ts i) (td d) = pull_finish_ok c m st i d.
    Proof.
      intros Hi Hst. unfold pull_finish_ok. destruct st as [|sq k0|sq k0]; cbn [tst]; try reflexivity.
      rewrite (Im i Hi), dst_sym by exact Hi.
      destruct (c i) as [[o k]|]; cbn [tcontent option_map fst snd]; [|reflexivity].
      destruct (dst_of i d) as [t|] eqn:Ed; cbn [option_map]; [|reflexivity].
      rewrite tw_eqb, ts_eqb by (try exact Hst; now apply (dst_lt64 i d t)). reflexivity.
    Qed.

    Lemma push_finish_sym m sq k0 i d : i < 64 -> sq < 64 ->
      push_finish_ok c' (tw m) (ts sq) k0 (ts i) (td d) = push_finish_ok c m sq k0 i d.
    Proof.
      intros Hi Hsq. unfold push_finish_ok. rewrite (Im i Hi), dst_sym by exact Hi.
      destruct (c i) as [[o k]|]; cbn [tcontent option_map fst snd]; [|reflexivity].
      destruct (dst_of i d) as [t|] eqn:Ed; cbn [option_map]; [|reflexivity].
      rewrite tw_eqb, ts_eqb, frozen_sym by (try exact Hsq; try exact Hi; now apply (dst_lt64 i d t)). reflexivity.
    Qed.

    Definition st_ok (st : sstatus) : Prop := match st with SNone => True | SPull sq _ => sq < 64 | SPush sq _ => sq < 64 end.

    (* the step automaton is symmetric *)
    Theorem spec_move_sym m stp st i d : i < 64 -> st_ok st ->
      spec_move_ok c' (tw m) stp (tst st) (ts i) (td d) = spec_move_ok c m stp st i d.
    Proof.
      intros Hi Hst. unfold spec_move_ok. destruct st as [|sq k0|sq k0]; cbn [tst].
      - rewrite own_step_sym, push_start_sym by exact Hi. reflexivity.
      - rewrite own_step_sym, push_start_sym by exact Hi. rewrite <- (pull_finish_sym m (SPull sq k0) i d Hi Hst). reflexivity.
      - now apply push_finish_sym.
    Qed.

    Theorem spec_next_status_sym m st i d : i < 64 -> st_ok st ->
      spec_next_status c' (tw m) (tst st) (ts i) (td d) = tst (spec_next_status c m st i d).
    Proof.
      intros Hi Hst. unfold spec_next_status. rewrite (Im i Hi).
      destruct (c i) as [[o k]|] eqn:Ci; cbn [tcontent option_map fst snd]; [|reflexivity].
      rewrite tw_eqb. destruct (Bool.eqb o m); cbn [negb].
      - destruct st; cbn [tst]; try reflexivity; destruct k; reflexivity.
      - rewrite pull_finish_sym; [|exact Hi|destruct st; cbn in *; auto].
        destruct (pull_finish_ok c m st i d); reflexivity.
    Qed.

    (* the board after a step *)
    Lemma moved_img i t : i < 64 -> t < 64 -> img (moved c i t) (moved c' (ts i) (ts t)).
    Proof.
      intros Hi Ht j Hj. unfold moved. rewrite !ts_eqb by assumption.
      destruct (j =? t); [now apply Im|]. destruct (j =? i); [reflexivity|now apply Im].
    Qed.
  End Cells.

  Lemma captures_img c c' : img c c' -> img (after_captures c) (after_captures c').
  Proof.
    intros Im j Hj. unfold after_captures. rewrite (unsupported_sym c c' Im j Hj).
    destruct (unsupported_on_trap c j); [reflexivity|now apply Im].
  Qed.

  Theorem spec_step_img c c' i d t : img c c' -> i < 64 -> dst_of i d = Some t ->
    img (after_captures (moved c i t)) (after_captures (moved c' (ts i) (ts t))).
  Proof. intros Im Hi Hd. apply captures_img, moved_img; [exact Im|exact Hi|now apply (dst_lt64 i d t)]. Qed.

  (* ---- transfer to the engine through T1 ---- *)
  Record SymStates (s s' : state) (pp pp' : play) : Prop := {
    sy_inv : PlayInv s pp;
    sy_inv' : PlayInv s' pp';
    sy_cells : img (cell (board s)) (cell (board s'));
    sy_side : side s' = tw (side s);
    sy_step : step_of pp' = step_of pp;
    sy_status : sstatus_of (pstate pp') = tst (sstatus_of (pstate pp));
  }.

  Lemma st_ok_of s pp : PlayInv s pp -> st_ok (sstatus_of (pstate pp)).
  Proof. intros Inv. pose proof (inv_status s pp Inv) as H. destruct (pstate pp); cbn in *; tauto. Qed.

  (* C11: rule-only offered actions are mapped to offered actions, in both directions *)
  Theorem offered_sym s s' pp pp' i d : SymStates s s' pp pp' -> i < 64 ->
    (In (Move i d) (valid_actions_no_rep s) <-> In (Move (ts i) (td d)) (valid_actions_no_rep s')).
  Proof.
    intros [Inv Inv' Im Sd Stp Sst] Hi.
    destruct Inv as [H1 H2 H3 H4 H5]. destruct Inv' as [H1' H2' H3' H4' H5'].
    rewrite (T1_move s pp H1 H2 (status_inv_ok _ _ _ H5) i d), (T1_move s' pp' H1' H2' (status_inv_ok _ _ _ H5') (ts i) (td d)).
    rewrite Sd, Stp, Sst, (spec_move_sym _ _ Im); [|exact Hi|].
    - split; intros [_ H]; split; auto.
    - pose proof H5 as X. destruct (pstate pp); cbn in *; tauto.
  Qed.

  Theorem pass_sym s s' pp pp' : SymStates s s' pp pp' ->
    (In Pass (valid_actions_no_rep s) <-> In Pass (valid_actions_no_rep s')).
  Proof.
    intros [Inv Inv' Im Sd Stp Sst].
    destruct Inv as [H1 H2 H3 H4 H5]. destruct Inv' as [H1' H2' H3' H4' H5'].
    rewrite (T1_pass s pp H1 H2 (status_inv_ok _ _ _ H5)), (T1_pass s' pp' H1' H2' (status_inv_ok _ _ _ H5')).
    rewrite Stp, Sst. destruct (sstatus_of (pstate pp)); reflexivity.
  Qed.

  (* C11: applying corresponding offered steps leads to corresponding states (boards, side, step, status) *)
  Theorem step_sym s s' pp pp' i d : SymStates s s' pp pp' -> In (Move i d) (valid_actions_no_rep s) ->
    move_no s < P64 -> move_no s' < P64 -> step_of pp < 3 ->
    exists pp2 pp2', SymStates (take_action s (Move i d)) (take_action s' (Move (ts i) (td d))) pp2 pp2'.
  Proof.
    intros Sy Off Hm Hm' H3. pose proof Sy as [Inv Inv' Im Sd Stp Sst].
    pose proof (offered_move_pre s pp i d Inv Off) as [Hi (t & o & k & Hd & Hc & Ht)].
    assert (In (Move (ts i) (td d)) (valid_actions_no_rep s')) as Off' by (now apply (offered_sym s s' pp pp' i d Sy Hi)).
    destruct (move_preserves s pp i d Inv Off) as [pp2 Inv2]. destruct (move_preserves s' pp' (ts i) (td d) Inv' Off') as [pp2' Inv2'].
    exists pp2, pp2'.
    pose proof (step_mid s pp i d (inv_phase s pp Inv) H3 Hm) as (A1 & _ & q & A3 & A4 & _ & _ & A7). cbv zeta in *.
    assert (step_of pp' < 3) as H3' by now rewrite Stp.
    pose proof (step_mid s' pp' (ts i) (td d) (inv_phase s' pp' Inv') H3' Hm') as (B1 & _ & q' & B3 & B4 & _ & _ & B7). cbv zeta in *.
    pose proof (inv_phase _ pp2 Inv2) as P2. rewrite A3 in P2. injection P2 as <-.
    pose proof (inv_phase _ pp2' Inv2') as P2'. rewrite B3 in P2'. injection P2' as <-.
    assert (dst_of (ts i) (td d) = Some (ts t)) as Hd' by (rewrite dst_sym by exact Hi; now rewrite Hd).
    assert (t < 64) as Ht64 by now apply (dst_lt64 i d t).
    constructor; auto.
    - (* boards *)
      intros j Hj.
      cbn [take_action]. rewrite (move_piece_unfold s pp i d (inv_phase s pp Inv)), (move_piece_unfold s' pp' (ts i) (td d) (inv_phase s' pp' Inv')).
      cbv zeta. cbn [board].
      rewrite (take_move_cell (board s) i d t j (inv_board s pp Inv) Hi Hd Ht Hj).
      assert (cell (board s') (ts t) = None) as Ht' by (rewrite (Im t Ht64), Ht; reflexivity).
      rewrite (take_move_cell (board s') (ts i) (td d) (ts t) (ts j) (inv_board s' pp' Inv') (ts_lt i Hi) Hd' Ht' (ts_lt j Hj)).
      now apply (spec_step_img _ _ i d t Im Hi Hd).
    - now rewrite A1, B1.
    - now rewrite A4, B4, Stp.
    - rewrite A7, B7.
      assert (cell (board s') (ts i) = Some (tw o, k)) as Hc' by (rewrite (Im i Hi), Hc; reflexivity).
      rewrite (next_status_spec s pp i d t o k Inv Hi Hd Hc), (next_status_spec s' pp' (ts i) (td d) (ts t) (tw o) k Inv' (ts_lt i Hi) Hd' Hc').
      rewrite Sd, Sst. apply spec_next_status_sym; [exact Im|exact Hi|now apply (st_ok_of s pp)].
  Qed.

  (* C11: results at turn start are mapped to the correspondingly swapped results *)
  Hypothesis goal_sym : forall j o, j < 64 ->
    (row_of (ts j) =? (if tw o then 0 else 7)) = (row_of j =? (if o then 0 else 7)).
  Hypothesis ts_onto : forall P : N -> bool, existsb (fun j => P (ts j)) sq64 = existsb P sq64.

  Definition tres (r : option result) : option result :=
    match r with Some x => Some (match x with RGold => win_for (tw true) | RSilver => win_for (tw false) end) | None => None end.

  Lemma rabbit_sym c c' o r r' : img c c' -> (forall j, j < 64 -> (row_of (ts j) =? r') = (row_of j =? r)) ->
    rabbit_on_row c' (tw o) r' = rabbit_on_row c o r.
  Proof.
    intros Im Hr. unfold rabbit_on_row, exists_sq. rewrite <- ts_onto. apply existsb_ext_in. intros j Hj. apply In_sq64 in Hj.
    rewrite Hr, (Im j Hj) by exact Hj. destruct (c j) as [[o' []]|]; cbn; try reflexivity. now rewrite tw_eqb.
  Qed.

  Lemma has_rabbit_sym c c' o : img c c' -> has_rabbit c' (tw o) = has_rabbit c o.
  Proof.
    intros Im. unfold has_rabbit, exists_sq. rewrite <- ts_onto. apply existsb_ext_in. intros j Hj. apply In_sq64 in Hj.
    rewrite (Im j Hj). destruct (c j) as [[o' []]|]; cbn; try reflexivity. now rewrite tw_eqb.
  Qed.

  Lemma goal_reached_sym c c' o : img c c' -> goal_reached c' (tw o) = goal_reached c o.
  Proof. intros Im. unfold goal_reached. apply rabbit_sym; [exact Im|]. intros j Hj. now apply goal_sym. Qed.

  Hypothesis tw_negb : forall o, tw (negb o) = negb (tw o).

  Theorem spec_result_sym c c' m cm : img c c' -> spec_result c' (tw m) cm = tres (spec_result c m cm).
  Proof.
    intros Im. unfold spec_result. rewrite <- !tw_negb.
    rewrite !(goal_reached_sym c c'), !(has_rabbit_sym c c') by exact Im.
    destruct (goal_reached c (negb m)), (goal_reached c m), (has_rabbit c m), (has_rabbit c (negb m)), cm; cbn [negb tres];
      try reflexivity; destruct m; cbn [negb win_for]; reflexivity.
  Qed.

  Theorem result_sym s s' pp pp' : SymStates s s' pp pp' -> step_of pp = 0 ->
    nonempty (valid_actions s') = nonempty (valid_actions s) ->
    is_terminal s' = term_of (tres (spec_result (cell (board s)) (side s) (nonempty (valid_actions s)))) /\
    is_terminal s = term_of (spec_result (cell (board s)) (side s) (nonempty (valid_actions s))).
  Proof.
    intros [Inv Inv' Im Sd Stp Sst] S0 NE. split.
    - rewrite (result_order s' pp' Inv') by now rewrite Stp. rewrite NE, Sd. now rewrite (spec_result_sym _ _ _ _ Im).
    - now apply (result_order s pp Inv).
  Qed.
End Sym.

(* ---- the two generators of the symmetry group ---- *)
Definition mirror_sq (i : N) : N := (i / 8) * 8 + (7 - i mod 8).
Definition mirror_dir (d : dir) : dir := match d with Left => Right | Right => Left | x => x end.
Definition flip_sq (i : N) : N := (7 - i / 8) * 8 + i mod 8.
Definition flip_dir (d : dir) : dir := match d with Up => Down | Down => Up | x => x end.

Definition sym_facts (ts : N -> N) (td : dir -> dir) (tw : bool -> bool) : bool :=
  forallb (fun i => (ts i <? 64) && (ts (ts i) =? i) && Bool.eqb (is_trap (ts i)) (is_trap i) &&
                    forallb (fun d => match dst_of (ts i) (td d), dst_of i d with
                                      | Some a, Some b => a =? ts b | None, None => true | _, _ => false end) all_dirs_list &&
                    forallb (fun o => Bool.eqb (row_of (ts i) =? (if tw o then 0 else 7)) (row_of i =? (if o then 0 else 7))) [true; false] &&
                    existsb (fun j => ts j =? i) sq64) sq64.

Lemma mirror_facts : sym_facts mirror_sq mirror_dir (fun o => o) = true.
Proof. vm_compute. reflexivity. Qed.
Lemma flip_facts : sym_facts flip_sq flip_dir negb = true.
Proof. vm_compute. reflexivity. Qed.

Section Facts.
  Variable ts : N -> N.
  Variable td : dir -> dir.
  Variable tw : bool -> bool.
  Hypothesis F : sym_facts ts td tw = true.

  Lemma facts_at i : i < 64 ->
    ts i < 64 /\ ts (ts i) = i /\ is_trap (ts i) = is_trap i /\
    (forall d, dst_of (ts i) (td d) = option_map ts (dst_of i d)) /\
    (forall o, (row_of (ts i) =? (if tw o then 0 else 7)) = (row_of i =? (if o then 0 else 7))) /\
    (exists j, j < 64 /\ ts j = i).
  Proof.
    intros Hi. pose proof (forall_sq64 _ F i Hi) as S. cbv beta in S.
    apply andb_prop in S. destruct S as [S S6]. apply andb_prop in S. destruct S as [S S5]. apply andb_prop in S. destruct S as [S S4].
    apply andb_prop in S. destruct S as [S S3]. apply andb_prop in S. destruct S as [S1 S2].
    apply N.ltb_lt in S1. apply N.eqb_eq in S2. apply eqb_prop in S3.
    split; [exact S1|]. split; [exact S2|]. split; [exact S3|]. split; [|split].
    - intros d. pose proof (forall_dirs _ S4 d) as D. cbv beta in D.
      destruct (dst_of (ts i) (td d)), (dst_of i d); try discriminate; cbn; [apply N.eqb_eq in D; now subst|reflexivity].
    - intros o. cbn [forallb] in S5. rewrite andb_true_r in S5. apply andb_prop in S5. destruct S5 as [G1 G2].
      destruct o; [now apply eqb_prop in G1|now apply eqb_prop in G2].
    - apply exists_sq64 in S6. destruct S6 as [j [Hj E]]. apply N.eqb_eq in E. eauto.
  Qed.

  Lemma facts_onto (P : N -> bool) : existsb (fun j => P (ts j)) sq64 = existsb P sq64.
  Proof.
    destruct (existsb P sq64) eqn:E.
    - apply exists_sq64 in E. destruct E as [i [Hi Pi]]. destruct (facts_at i Hi) as (_ & _ & _ & _ & _ & j & Hj & Ej).
      apply exists_sq64. exists j. split; [exact Hj|]. now rewrite Ej.
    - apply not_true_iff_false. intros T. apply exists_sq64 in T. destruct T as [j [Hj Pj]].
      assert (existsb P sq64 = true) as X by (apply exists_sq64; exists (ts j); split; [apply (facts_at j Hj)|exact Pj]). congruence.
  Qed.
End Facts.

(* C11 for the file mirror *)
Section Mirror.
  Let ts := mirror_sq. Let td := mirror_dir. Let tw := fun o : bool => o.
  Lemma m_lt i : i < 64 -> ts i < 64. Proof. intros H. apply (facts_at ts td tw mirror_facts i H). Qed.
  Lemma m_inv i : i < 64 -> ts (ts i) = i. Proof. intros H. apply (facts_at ts td tw mirror_facts i H). Qed.
  Lemma m_eqb a b : Bool.eqb (tw a) (tw b) = Bool.eqb a b. Proof. reflexivity. Qed.
  Lemma m_dst i d : i < 64 -> dst_of (ts i) (td d) = option_map ts (dst_of i d). Proof. intros H. apply (facts_at ts td tw mirror_facts i H). Qed.
  Lemma m_or4 (g : dir -> bool) : g (td Up) || g (td Right) || g (td Down) || g (td Left) = g Up || g Right || g Down || g Left.
  Proof. cbn. destruct (g Up), (g Right), (g Down), (g Left); reflexivity. Qed.
  Lemma m_trap i : i < 64 -> is_trap (ts i) = is_trap i. Proof. intros H. apply (facts_at ts td tw mirror_facts i H). Qed.
  Lemma m_back o d : backward (tw o) (td d) = backward o d. Proof. destruct o, d; reflexivity. Qed.
  Lemma m_goal j o : j < 64 -> (row_of (ts j) =? (if tw o then 0 else 7)) = (row_of j =? (if o then 0 else 7)).
  Proof. intros H. apply (facts_at ts td tw mirror_facts j H). Qed.

  Definition mirror_offered := offered_sym ts td tw m_lt m_inv m_eqb m_dst m_or4 m_back.
  Definition mirror_pass := pass_sym ts tw.
  Definition mirror_step := step_sym ts td tw m_lt m_inv m_eqb m_dst m_or4 m_trap m_back.
  Definition mirror_result := result_sym ts tw m_eqb m_goal (facts_onto ts td tw mirror_facts) (fun o => eq_refl).
End Mirror.

(* C11 for colour swap with rank flip *)
Section Flip.
  Let ts := flip_sq. Let td := flip_dir. Let tw := negb.
  Lemma f_lt i : i < 64 -> ts i < 64. Proof. intros H. apply (facts_at ts td tw flip_facts i H). Qed.
  Lemma f_inv i : i < 64 -> ts (ts i) = i. Proof. intros H. apply (facts_at ts td tw flip_facts i H). Qed.
  Lemma f_eqb a b : Bool.eqb (tw a) (tw b) = Bool.eqb a b. Proof. destruct a, b; reflexivity. Qed.
  Lemma f_dst i d : i < 64 -> dst_of (ts i) (td d) = option_map ts (dst_of i d). Proof. intros H. apply (facts_at ts td tw flip_facts i H). Qed.
  Lemma f_or4 (g : dir -> bool) : g (td Up) || g (td Right) || g (td Down) || g (td Left) = g Up || g Right || g Down || g Left.
  Proof. cbn. destruct (g Up), (g Right), (g Down), (g Left); reflexivity. Qed.
  Lemma f_trap i : i < 64 -> is_trap (ts i) = is_trap i. Proof. intros H. apply (facts_at ts td tw flip_facts i H). Qed.
  Lemma f_back o d : backward (tw o) (td d) = backward o d. Proof. destruct o, d; reflexivity. Qed.
  Lemma f_goal j o : j < 64 -> (row_of (ts j) =? (if tw o then 0 else 7)) = (row_of j =? (if o then 0 else 7)).
  Proof. intros H. apply (facts_at ts td tw flip_facts j H). Qed.

  Definition flip_offered := offered_sym ts td tw f_lt f_inv f_eqb f_dst f_or4 f_back.
  Definition flip_pass := pass_sym ts tw.
  Definition flip_step := step_sym ts td tw f_lt f_inv f_eqb f_dst f_or4 f_trap f_back.
  Definition flip_result := result_sym ts tw f_eqb f_goal (facts_onto ts td tw flip_facts) (fun o => eq_refl).
End Flip.
