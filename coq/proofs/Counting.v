(* C03: the move number counts the Silver turn ends; C10: material stays within the complement along every game
   from the initial state. *)
From Coq Require Import NArith ZArith List Bool Lia ZifyBool ZifyN.
From Arimaa Require Import Types U64 GenMasks GenEnums GenZobrist Board Zobrist Engine Notation Display Trace Cells Rules Monitors
  Fin XorFold Hash HashSens BitLemmas StepLemmas GenLemmas Refine Invariant TurnLemmas HashInv Live Setup Reach Traps RepInv Material.
Import ListNotations.
Open Scope N_scope.
Strategy opaque [bits_of].

(* ---- C03_count ---- *)
Fixpoint silver_ends (s : state) (l : list action) : N :=
  match l with
  | [] => 0
  | a :: r => (if is_turn_end s a && negb (side s) then 1 else 0) + silver_ends (take_action s a) r
  end.

Fixpoint offered_run (s : state) (l : list action) : Prop :=
  match l with [] => True | a :: r => In a (valid_actions_no_rep s) /\ offered_run (take_action s a) r end.

Lemma one_action_move_no s pp a : PlayInv s pp -> In a (valid_actions_no_rep s) -> move_no s + 1 < P64 ->
  move_no (take_action s a) = move_no s + (if is_turn_end s a && negb (side s) then 1 else 0).
Proof.
  intros Inv Off Hm. pose proof (inv_phase s pp Inv) as Hph. pose proof (inv_step s pp Inv) as H3.
  unfold is_turn_end. rewrite Hph. destruct a as [k|i d|].
  - exfalso. destruct Inv as [H1 H2 _ _ H5]. now apply (T1_no_place s pp H1 H2 (status_inv_ok _ _ _ H5) k).
  - destruct (N.leb_spec 3 (step_of pp)) as [L|L].
    + destruct (step_last s pp i d Hph L Hm) as (_ & M & _). cbv zeta in M. rewrite M. destruct (side s); cbn; lia.
    + destruct (step_mid s pp i d Hph L ltac:(lia)) as (_ & M & _). cbv zeta in M. rewrite M. cbn. lia.
  - destruct (pass_turn s pp Hph Hm) as (_ & M & _). cbv zeta in M. rewrite M. destruct (side s); cbn; lia.
Qed.

Theorem move_count : forall l s pp, PlayInv s pp -> offered_run s l -> move_no s + silver_ends s l + 1 < P64 ->
  move_no (fold_left take_action l s) = move_no s + silver_ends s l.
Proof.
  induction l as [|a l IH]; intros s pp Inv Run Hm; [cbn; lia|].
  cbn [offered_run silver_ends fold_left] in *. destruct Run as [Off Run].
  destruct (action_preserves s pp a Inv Off) as [pp' Inv'].
  assert (move_no s + 1 < P64) as Hm1 by lia.
  pose proof (one_action_move_no s pp a Inv Off Hm1) as M1.
  rewrite (IH _ pp' Inv' Run) by (rewrite M1; lia). rewrite M1. lia.
Qed.

(* ---- C10: complement ---- *)
Definition within (c : cellf) : Prop := forall o k, (npk c o k <= N.to_nat (complement k))%nat.

Lemma npk_count_kind b o k : WFb b -> count_kind b k o = N.of_nat (npk (cell b) o k).
Proof. intros W. unfold count_kind, npk. now apply count_kind_cells. Qed.

Lemma npk_place (c c' : cellf) t o k o' k' : t < 64 -> c t = None -> (forall j, j < 64 -> c' j = if j =? t then Some (o, k) else c j) ->
  npk c' o' k' = (npk c o' k' + (if Bool.eqb o o' && piece_eqb k k' then 1 else 0))%nat.
Proof.
  intros Ht Ct Hc'. unfold npk.
  destruct (Bool.eqb o o' && piece_eqb k k') eqn:E.
  - apply andb_prop in E. destruct E as [E1 E2]. apply eqb_prop in E1. destruct (piece_eqb_spec k k'); [|discriminate]. subst o' k'.
    rewrite Nat.add_1_r.
    assert (length (filter (is_piece c' o k) sq64) = S (length (filter (is_piece c o k) sq64))) as G.
    { clear - Ht Ct Hc'. pose proof NoDup_sq64 as ND. assert (In t sq64) as It by now apply In_sq64.
      assert (forall x, In x sq64 -> x < 64) as Lt by (intros x; apply In_sq64).
      revert ND It Lt. generalize sq64 as l. induction l as [|x l IH]; intros ND It Lt; [contradiction|].
      inversion ND as [|? ? Hx ND']; subst. cbn [filter].
      assert (is_piece c' o k x = if x =? t then true else is_piece c o k x) as Px.
      { unfold is_piece. rewrite (Hc' x (Lt x (or_introl eq_refl))). destruct (x =? t); [|reflexivity].
        cbn [cell_eqb]. rewrite eqb_reflx. destruct (piece_eqb_spec k k); [reflexivity|congruence]. }
      rewrite Px.
      destruct It as [->|It].
      - rewrite N.eqb_refl. assert (is_piece c o k t = false) as Pt by (unfold is_piece; rewrite Ct; reflexivity). rewrite Pt.
        cbn [length]. f_equal. f_equal. apply filter_ext_in'. intros y Hy. unfold is_piece. rewrite (Hc' y (Lt y (or_intror Hy))).
        destruct (N.eqb_spec y t); [subst; contradiction|reflexivity].
      - destruct (N.eqb_spec x t) as [->|]; [contradiction|].
        assert (IH' := IH ND' It (fun y Hy => Lt y (or_intror Hy))).
        destruct (is_piece c o k x); cbn [length]; lia. }
    exact G.
  - rewrite Nat.add_0_r. f_equal. apply filter_ext_in'. intros y Hy. apply In_sq64 in Hy. unfold is_piece. rewrite (Hc' y Hy).
    destruct (N.eqb_spec y t) as [->|]; [|reflexivity]. rewrite Ct. cbn [cell_eqb].
    destruct (Bool.eqb o o') eqn:E1, (piece_eqb k k') eqn:E2; cbn in E; try discriminate;
      rewrite ?(eqb_sym o' o), ?E1; cbn; try reflexivity;
      destruct (piece_eqb_spec k' k); try reflexivity; subst; destruct (piece_eqb_spec k k); congruence.
Qed.

Theorem setup_within s n k : SetupInv s n -> within (cell (board s)) -> In (Place k) (valid_placement s) ->
  within (cell (board (place s k))).
Proof.
  intros Inv Wi Off o' k'. pose proof (si_wf s n Inv) as W.
  rewrite (npk_place (cell (board s)) (cell (board (place s k))) (target n) (side s) k o' k' (Ht64 s n Inv) (target_empty s n Inv)
             (fun j Hj => place_cell s n k Inv j Hj)).
  destruct (Bool.eqb (side s) o' && piece_eqb k k') eqn:E; [|rewrite Nat.add_0_r; apply Wi].
  apply andb_prop in E. destruct E as [E1 E2]. apply eqb_prop in E1. destruct (piece_eqb_spec k k'); [|discriminate]. subst o' k'.
  apply (valid_placement_In s k W) in Off. rewrite (npk_count_kind _ _ _ W) in Off.
  assert (N.of_nat (npk (cell (board s)) (side s) k) < complement k) by exact Off. lia.
Qed.

Lemma within_le (c c' : cellf) : within c -> (forall o k, (npk c' o k <= npk c o k)%nat) -> within c'.
Proof. intros W H o k. specialize (W o k). specialize (H o k). lia. Qed.

Inductive ReachI : state -> Prop :=
| RI_initial : ReachI initial
| RI_step s a : ReachI s -> In a (valid_actions_no_rep s) -> ReachI (take_action s a).

Lemma npk_empty o k : npk (cell empty_board) o k = 0%nat.
Proof. reflexivity. Qed.

(* C10: each side never has more than 1 elephant, 1 camel, 2 horses, 2 dogs, 2 cats, 8 rabbits, in every state of every
   game from the initial state *)
Theorem reachI_within s : ReachI s -> within (cell (board s)) /\ ((exists n, SetupInv s n) \/ (exists pp, PlayInv s pp)).
Proof.
  induction 1 as [|s a R [Wi IH] Off].
  - split; [intros o k; rewrite npk_empty; lia|left; exists 0; exact setup_initial].
  - destruct IH as [[n Inv]|[pp Inv]].
    + unfold valid_actions_no_rep, valid_actions_ in Off. rewrite (si_phase s n Inv) in Off.
      destruct (valid_placement_only s a Off) as [k ->]. cbn [take_action]. split; [now apply (setup_within s n k)|].
      destruct (N.eq_dec n 31) as [E|E].
      * right. destruct (place_last s n k Inv E) as (h & _ & _ & _ & _ & HI). exists (play_initial h [h]). exact (hi_play _ _ HI).
      * left. exists (n + 1). now apply place_next.
    + destruct (action_preserves s pp a Inv Off) as [pp' Inv']. split; [|right; eauto].
      destruct a as [k|i d|].
      * exfalso. destruct Inv as [H1 H2 _ _ H5]. now apply (T1_no_place s pp H1 H2 (status_inv_ok _ _ _ H5) k).
      * apply (within_le (cell (board s))); [exact Wi|]. intros o k. now apply (step_material s pp i d o k).
      * cbn [take_action]. unfold pass. cbn [board]. exact Wi.
Qed.
