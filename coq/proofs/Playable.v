(* C01, rule-book form: the step sequences the engine lets the mover play within a turn are exactly the prefixes of
   legal Arimaa turns.  T1 (engine = step automaton, one step) is lifted to step sequences and composed with T2. *)
From Coq Require Import NArith ZArith List Bool Lia ZifyBool ZifyN.
From Arimaa Require Import Types U64 GenMasks GenEnums GenZobrist Board Zobrist Engine Notation Display Trace Cells Rules Turns Monitors
  Fin XorFold Hash BitLemmas StepLemmas GenLemmas Refine Invariant TurnLemmas Traps Pending TurnsLemmas T2b T2a.
Import ListNotations.
Open Scope N_scope.
Strategy opaque [bits_of].

(* ---- the square-level definitions only look at the cells ---- *)
Section Ext.
  Variables c c' : cellf.
  Hypothesis E : forall j, c j = c' j.

  Lemma occupied_ext j : occupied c j = occupied c' j. Proof. unfold occupied. now rewrite E. Qed.
  Lemma friend_ext o j : friend_at c o j = friend_at c' o j. Proof. unfold friend_at. now rewrite E. Qed.
  Lemma has_friend_ext o j : has_friend_nbr c o j = has_friend_nbr c' o j.
  Proof. unfold has_friend_nbr. apply existsb_ext_in. intros q _. apply friend_ext. Qed.
  Lemma frozen_ext j : frozen c j = frozen c' j.
  Proof.
    unfold frozen. rewrite E. destruct (c' j) as [[o k]|]; [|reflexivity]. rewrite has_friend_ext. f_equal.
    unfold has_stronger_enemy_nbr. apply existsb_ext_in. intros q _. now rewrite E.
  Qed.
  Lemma own_step_ext g s d : own_step_ok c g s d = own_step_ok c' g s d.
  Proof. unfold own_step_ok. rewrite E. destruct (c' s) as [[o k]|]; [|reflexivity]. destruct (dst_of s d); [|reflexivity]. now rewrite occupied_ext, frozen_ext. Qed.
  Lemma push_start_ext g s d : push_start_ok c g s d = push_start_ok c' g s d.
  Proof.
    unfold push_start_ok. rewrite E. destruct (c' s) as [[o k]|]; [|reflexivity]. destruct (dst_of s d); [|reflexivity]. rewrite occupied_ext. f_equal.
    apply existsb_ext_in. intros q _. rewrite E. destruct (c' q) as [[o' k']|]; [|reflexivity]. now rewrite frozen_ext.
  Qed.
  Lemma pull_finish_ext g st s d : pull_finish_ok c g st s d = pull_finish_ok c' g st s d.
  Proof. unfold pull_finish_ok. destruct st; try reflexivity. now rewrite E. Qed.
  Lemma push_finish_ext g t k s d : push_finish_ok c g t k s d = push_finish_ok c' g t k s d.
  Proof. unfold push_finish_ok. rewrite E. destruct (c' s) as [[o k']|]; [|reflexivity]. destruct (dst_of s d); [|reflexivity]. now rewrite frozen_ext. Qed.
  Lemma spec_move_ext g stp st s d : spec_move_ok c g stp st s d = spec_move_ok c' g stp st s d.
  Proof. unfold spec_move_ok. destruct st; rewrite ?own_step_ext, ?push_start_ext, ?pull_finish_ext, ?push_finish_ext; reflexivity. Qed.
  Lemma next_status_ext g st s d : spec_next_status c g st s d = spec_next_status c' g st s d.
  Proof. unfold spec_next_status. rewrite E. destruct (c' s) as [[o k]|]; [|reflexivity]. now rewrite pull_finish_ext. Qed.
  Lemma unsupported_ext' j : unsupported_on_trap c j = unsupported_on_trap c' j.
  Proof. apply unsupported_ext. exact E. Qed.
End Ext.

Lemma step_board_ext c c' x : (forall j, c j = c' j) -> forall j, step_board c x j = step_board c' x j.
Proof.
  intros E j. unfold step_board. destruct (dst_of (fst x) (snd x)) as [t|]; [|apply E].
  assert (forall n, moved c (fst x) t n = moved c' (fst x) t n) as M by (intros n; unfold moved; rewrite !E; reflexivity).
  unfold after_captures. rewrite (unsupported_ext' _ _ M j), M. reflexivity.
Qed.

Lemma accepts_ext g l : forall c c' stp st, (forall j, c j = c' j) -> accepts c g stp st l = accepts c' g stp st l.
Proof.
  induction l as [|x l IH]; intros c c' stp st E; [reflexivity|]. cbn [accepts].
  rewrite (spec_move_ext c c' E), (next_status_ext c c' E). f_equal. apply IH. now apply step_board_ext.
Qed.

Lemma cell_on_board b : WFb b -> on_board (cell b).
Proof.
  intros W j Hj. unfold cell. pose proof (WFb_words b W) as (_ & W2 & _). now rewrite (wf64_high _ j W2 Hj).
Qed.

(* ---- the engine, step sequences inside one turn ---- *)
Fixpoint playable (s : state) (l : list sstep) : Prop :=
  match l with
  | [] => True
  | x :: r => In (Move (fst x) (snd x)) (valid_actions_no_rep s) /\ playable (take_action s (Move (fst x) (snd x))) r
  end.

Lemma step_cells s pp i d : PlayInv s pp -> In (Move i d) (valid_actions_no_rep s) ->
  forall j, cell (board (take_action s (Move i d))) j = step_board (cell (board s)) (i, d) j.
Proof.
  intros Inv Off j. pose proof (offered_move_pre s pp i d Inv Off) as [Hi (t & o & k & Hd & Hc & Ht)].
  pose proof (inv_board s pp Inv) as W. rewrite (step_board_some _ i d t Hd).
  destruct (N.lt_ge_cases j 64) as [Hj|Hj].
  - cbn [take_action]. rewrite (move_piece_unfold s pp i d (inv_phase s pp Inv)). cbv zeta. cbn [board]. now apply take_move_cell.
  - destruct (move_preserves s pp i d Inv Off) as [pp' Inv']. rewrite (cell_on_board _ (inv_board _ pp' Inv') j Hj).
    pose proof (cell_on_board _ W) as OB. pose proof (step_board_on_board _ (i, d) OB j Hj) as X.
    rewrite (step_board_some _ i d t Hd) in X. now rewrite X.
Qed.

Theorem playable_iff_accepts : forall l s pp, PlayInv s pp -> move_no s < P64 -> N.of_nat (length l) + step_of pp <= 4 ->
  (playable s l <-> accepts (cell (board s)) (side s) (step_of pp) (sstatus_of (pstate pp)) l = true /\ Forall (fun x => fst x < 64) l).
Proof.
  induction l as [|[i d] r IH]; intros s pp Inv Hm Len; [cbn; split; auto|].
  cbn [playable accepts fst snd]. cbn [length] in Len.
  pose proof Inv as [Hph W _ _ Hst].
  rewrite (T1_move s pp Hph W (status_inv_ok _ _ _ Hst) i d).
  destruct (N.ltb_spec (step_of pp) 4) as [L4|L4]; [|lia]. cbn [andb].
  split.
  - intros [[Hi Ok] Pl].
    assert (In (Move i d) (valid_actions_no_rep s)) as Off by (apply (T1_move s pp Hph W (status_inv_ok _ _ _ Hst)); tauto).
    rewrite Ok. cbn [andb].
    destruct r as [|y r']; [split; [reflexivity|constructor; [exact Hi|constructor]]|].
    assert (step_of pp < 3) as L3 by (cbn [length] in Len; lia).
    destruct (move_preserves s pp i d Inv Off) as [pp' Inv'].
    pose proof (step_mid s pp i d Hph L3 Hm) as (S1 & S2 & q & Q1 & Q2 & _ & _ & Q5). cbv zeta in *.
    pose proof (inv_phase _ pp' Inv') as P'. rewrite Q1 in P'. injection P' as <-.
    pose proof (offered_move_pre s pp i d Inv Off) as [_ (t & o & k & Hd & Hc & Ht)].
    assert (N.of_nat (length (y :: r')) + step_of q <= 4) as Len' by (rewrite Q2; lia).
    apply (IH _ q Inv' ltac:(rewrite S2; exact Hm) Len') in Pl. destruct Pl as [A F].
    rewrite S1, Q2, Q5, (next_status_spec s pp i d t o k Inv Hi Hd Hc) in A.
    rewrite (accepts_ext _ _ _ _ _ _ (step_cells s pp i d Inv Off)) in A. split; [exact A|constructor; [exact Hi|exact F]].
  - intros [A F]. apply andb_prop in A. destruct A as [Ok A]. inversion F as [|? ? Hi F']; subst. cbn [fst] in Hi.
    split; [tauto|].
    assert (In (Move i d) (valid_actions_no_rep s)) as Off by (apply (T1_move s pp Hph W (status_inv_ok _ _ _ Hst)); tauto).
    destruct r as [|y r']; [exact I|].
    assert (step_of pp < 3) as L3 by (cbn [length] in Len; lia).
    destruct (move_preserves s pp i d Inv Off) as [pp' Inv'].
    pose proof (step_mid s pp i d Hph L3 Hm) as (S1 & S2 & q & Q1 & Q2 & _ & _ & Q5). cbv zeta in *.
    pose proof (inv_phase _ pp' Inv') as P'. rewrite Q1 in P'. injection P' as <-.
    pose proof (offered_move_pre s pp i d Inv Off) as [_ (t & o & k & Hd & Hc & Ht)].
    assert (N.of_nat (length (y :: r')) + step_of q <= 4) as Len' by (rewrite Q2; lia).
    apply (IH _ q Inv' ltac:(rewrite S2; exact Hm) Len'). split; [|exact F'].
    rewrite S1, Q2, Q5, (next_status_spec s pp i d t o k Inv Hi Hd Hc).
    rewrite (accepts_ext _ _ _ _ _ _ (step_cells s pp i d Inv Off)). exact A.
Qed.

Lemma accepts_squares c g : on_board c -> forall l stp st, accepts c g stp st l = true -> Forall (fun x => fst x < 64) l.
Proof.
  intros OB l. revert c OB. induction l as [|[i d] r IH]; intros c OB stp st A; [constructor|].
  cbn [accepts fst snd] in A. apply andb_prop in A. destruct A as [A AR]. apply andb_prop in A. destruct A as [_ A].
  constructor.
  - cbn [fst]. unfold spec_move_ok in A.
    assert (exists x, c i = Some x) as [x Cx].
    { destruct (c i) as [x|] eqn:Ci; [eauto|]. exfalso. unfold own_step_ok, push_start_ok, pull_finish_ok, push_finish_ok in A. rewrite Ci in A.
      destruct st; cbn in A; try discriminate; try (now rewrite andb_false_r in A). }
    now apply (on_board_lt c i x OB).
  - apply (IH (step_board c (i, d))) in AR; [exact AR|now apply step_board_on_board].
Qed.

(* C01 at full strength: from the start of a turn in a position without trap violations, the step sequences the engine
   lets the mover play (rule-only lists) are exactly the prefixes of sequences of legal moves - single steps, pushes and
   pulls as worded in spec/Turns.v - using at most four steps *)
Theorem rulebook s pp l : PlayInv s pp -> step_of pp = 0 -> pstate pp = PPNone -> legal_traps (cell (board s)) ->
  move_no s < P64 -> (length l <= 4)%nat ->
  (playable s l <->
   exists ms, mvs_ok (cell (board s)) (side s) ms = true /\ is_prefix l (flatten ms) /\ (length (flatten ms) <= 4)%nat).
Proof.
  intros Inv S0 St Leg Hm Len. pose proof (cell_on_board _ (inv_board s pp Inv)) as OB.
  rewrite (playable_iff_accepts l s pp Inv Hm) by (rewrite S0; lia). rewrite S0, St. cbn [sstatus_of].
  rewrite <- (T2 _ _ l OB Leg). split; [tauto|]. intros A. split; [exact A|exact (accepts_squares _ (side s) OB l 0 SNone A)].
Qed.

(* the notion of legal move is not vacuous: gold elephant d4, silver rabbit d5 and cat e4; gold pushes the rabbit north
   and pulls the cat in one turn (push d5n d4n, then pull d5w with e... no: single step + pull) *)
Definition ex_cells : cellf := fun i =>
  if i =? 35 then Some (true, Elephant)        (* d4 *)
  else if i =? 27 then Some (false, Rabbit)    (* d5 *)
  else if i =? 36 then Some (false, Cat)       (* e4 *)
  else if i =? 63 then Some (true, Rabbit)     (* h1 *)
  else None.
Example ex_push_then_pull :
  mvs_ok ex_cells true [MPush 27 Up 35 Up; MPull 27 Left 36 Up] = false /\
  mvs_ok ex_cells true [MPush 27 Up 35 Up; MSingle 27 Down] = true /\
  mvs_ok ex_cells true [MPull 35 Left 36 Left; MSingle 63 Up] = true /\
  mvs_ok ex_cells true [MPush 36 Right 35 Right; MPush 27 Up 36 Left] = false /\
  accepts ex_cells true 0 SNone [(27, Up); (35, Up); (27, Down)] = true /\
  accepts ex_cells true 0 SNone [(27, Up); (63, Up)] = false.
Proof. repeat split; vm_compute; reflexivity. Qed.
