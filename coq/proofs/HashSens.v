(* C17: changing one hashed feature changes the transposition hash.
   Finite facts about the regenerated Zobrist tables (by vm_compute, re-proved on every run) are
   lifted through the xor-fold algebra to statements about ALL well-formed boards. *)
From Coq Require Import NArith List Bool Lia.
From Arimaa Require Import Types U64 GenMasks GenEnums GenZobrist Board Zobrist Engine Cells XorFold Hash Fin.
Import ListNotations.
Open Scope N_scope.

Definition status_value (p : pps) : N :=
  match p with
  | PPNone => 0
  | PossiblePull s k => pull_piece_value s k
  | MustCompletePush s k => push_piece_value s k
  end.

(* the transposition hash as a function of the four hashed features *)
Definition thash_of (b : pbs) (sd : bool) (stp : N) (st : pps) : N :=
  N.lxor (z_from_piece_board b sd stp) (status_value st).

(* statuses the engine can report (C12): a pushed piece is never an elephant, a puller never a rabbit *)
Definition admissible (p : pps) : bool :=
  match p with
  | PPNone => true
  | PossiblePull s k => (s <? 64) && negb (piece_eqb k Rabbit)
  | MustCompletePush s k => (s <? 64) && negb (piece_eqb k Elephant)
  end.

Lemma transposition_hash_thash s pp :
  ph s = PlayPhase pp -> hash s = z_from_piece_board (board s) (side s) (step_of pp) ->
  transposition_hash s = thash_of (board s) (side s) (step_of pp) (pstate pp).
Proof.
  intros Hph Hh. unfold transposition_hash, thash_of. rewrite Hph, Hh. destruct (pstate pp); reflexivity.
Qed.

(* ---------- finite facts on the tables ---------- *)
Definition all_contents : list (option (bool * piece)) :=
  None :: flat_map (fun o => map (fun k => Some (o, k)) all_pieces_list) [true; false].

Lemma In_all_contents c : In c all_contents.
Proof. destruct c as [[[] []]|]; cbn; tauto. Qed.

Definition cv_distinct_at (i : N) : bool :=
  forallb (fun c => forallb (fun c' => cell_eqb c c' || negb (cv c i =? cv c' i)) all_contents) all_contents.

Lemma cv_distinct_sweep : forallb cv_distinct_at sq64 = true.
Proof. vm_compute. reflexivity. Qed.

Lemma cell_eqb_eq c c' : cell_eqb c c' = true -> c = c'.
Proof.
  destruct c as [[o k]|], c' as [[o' k']|]; cbn; try discriminate; auto.
  intros H. apply andb_prop in H. destruct H as [H1 H2].
  apply eqb_prop in H1. destruct (piece_eqb_spec k k'); [subst; reflexivity|discriminate].
Qed.

Lemma cv_inj i c c' : i < 64 -> cv c i = cv c' i -> c = c'.
Proof.
  intros Hi H. pose proof (forall_sq64 _ cv_distinct_sweep i Hi) as S.
  unfold cv_distinct_at in S. rewrite forallb_forall in S. specialize (S c (In_all_contents c)).
  rewrite forallb_forall in S. specialize (S c' (In_all_contents c')).
  apply orb_prop in S. destruct S as [S|S]; [now apply cell_eqb_eq|].
  rewrite H, N.eqb_refl in S. discriminate.
Qed.

(* one piece on two different squares *)
Definition moved_distinct (c : option (bool * piece)) : bool :=
  forallb (fun p => forallb (fun q => (p =? q) || negb (cv c p =? cv c q)) sq64) sq64.
Lemma moved_distinct_sweep : forallb (fun c => match c with None => true | _ => moved_distinct c end) all_contents = true.
Proof. vm_compute. reflexivity. Qed.

Lemma cv_square_inj o k p q : p < 64 -> q < 64 -> cv (Some (o, k)) p = cv (Some (o, k)) q -> p = q.
Proof.
  intros Hp Hq H. pose proof moved_distinct_sweep as S. rewrite forallb_forall in S.
  specialize (S (Some (o, k)) (In_all_contents _)). cbv beta iota in S. unfold moved_distinct in S.
  pose proof (forall_sq64 _ S p Hp) as S1. cbv beta in S1. pose proof (forall_sq64 _ S1 q Hq) as S2. cbv beta in S2.
  apply orb_prop in S2. destruct S2 as [S2|S2]; [now apply N.eqb_eq|].
  rewrite H, N.eqb_refl in S2. discriminate.
Qed.

Lemma ptm_nonzero : PLAYER_TO_MOVE <> 0.
Proof. discriminate. Qed.

Definition steps4 : list N := [0; 1; 2; 3].
Lemma steps_distinct_sweep :
  forallb (fun a => forallb (fun b => (a =? b) || negb (step_val a =? step_val b)) steps4) steps4 = true.
Proof. vm_compute. reflexivity. Qed.

Lemma step_val_inj a b : a <= 3 -> b <= 3 -> step_val a = step_val b -> a = b.
Proof.
  intros Ha Hb H. pose proof steps_distinct_sweep as S. rewrite forallb_forall in S.
  assert (In a steps4) as Ia by (cbn; lia). assert (In b steps4) as Ib by (cbn; lia).
  specialize (S a Ia). rewrite forallb_forall in S. specialize (S b Ib).
  apply orb_prop in S. destruct S as [S|S]; [now apply N.eqb_eq|]. rewrite H, N.eqb_refl in S. discriminate.
Qed.

(* all admissible statuses *)
Definition all_statuses : list pps :=
  PPNone :: flat_map (fun s => flat_map (fun k => [PossiblePull s k; MustCompletePush s k]) all_pieces_list) sq64.

Lemma In_all_statuses p : admissible p = true -> In p all_statuses.
Proof.
  unfold all_statuses. destruct p as [|s k|s k]; cbn [admissible]; intros H; [now left| |]; right;
    apply andb_prop in H; destruct H as [H _]; apply N.ltb_lt in H;
    apply in_flat_map; exists s; (split; [now apply In_sq64|]);
    apply in_flat_map; exists k; (split; [apply In_all_pieces|]); cbn; tauto.
Qed.

Definition status_distinct_sweep_def : bool :=
  forallb (fun a => negb (admissible a) ||
    forallb (fun b => negb (admissible b) || pps_eqb a b || negb (status_value a =? status_value b)) all_statuses) all_statuses.
Lemma status_distinct_sweep : status_distinct_sweep_def = true.
Proof. vm_compute. reflexivity. Qed.

Lemma pps_eqb_eq a b : pps_eqb a b = true -> a = b.
Proof.
  destruct a, b; cbn; try discriminate; auto; intros H; apply andb_prop in H; destruct H as [H1 H2];
    apply N.eqb_eq in H1; (destruct (piece_eqb_spec k k0); [subst; reflexivity|discriminate]).
Qed.

Lemma status_value_inj a b : admissible a = true -> admissible b = true -> status_value a = status_value b -> a = b.
Proof.
  intros Ha Hb H. pose proof status_distinct_sweep as S. unfold status_distinct_sweep_def in S.
  rewrite forallb_forall in S. specialize (S a (In_all_statuses a Ha)). rewrite Ha in S. cbn [negb orb] in S.
  rewrite forallb_forall in S. specialize (S b (In_all_statuses b Hb)). rewrite Hb in S. cbn [negb orb] in S.
  apply orb_prop in S. destruct S as [S|S]; [now apply pps_eqb_eq|]. rewrite H, N.eqb_refl in S. discriminate.
Qed.

(* ---------- lifting ---------- *)
Lemma lxor_neq_cancel_r a b c : a <> b -> N.lxor a c <> N.lxor b c.
Proof.
  intros H E. apply H. rewrite (N.lxor_comm a), (N.lxor_comm b) in E. now apply lxor_cancel_l in E.
Qed.
Lemma lxor_neq_cancel_l a b c : a <> b -> N.lxor c a <> N.lxor c b.
Proof. intros H E. apply H. now apply lxor_cancel_l in E. Qed.

Theorem thash_side b stp st : WFb b -> thash_of b true stp st <> thash_of b false stp st.
Proof.
  intros W. unfold thash_of. apply lxor_neq_cancel_r. rewrite !z_from_piece_board_spec by exact W.
  apply lxor_neq_cancel_r. unfold header_part. apply lxor_neq_cancel_r.
  intros E. rewrite <- (N.lxor_0_r INITIAL) in E at 1. apply lxor_cancel_l in E. symmetry in E. now apply ptm_nonzero.
Qed.

Theorem thash_step b sd stp stp' st : WFb b -> stp <= 3 -> stp' <= 3 -> stp <> stp' ->
  thash_of b sd stp st <> thash_of b sd stp' st.
Proof.
  intros W H1 H2 Hne. unfold thash_of. apply lxor_neq_cancel_r. rewrite !z_from_piece_board_spec by exact W.
  apply lxor_neq_cancel_r. unfold header_part. apply lxor_neq_cancel_l. intros E. apply Hne. now apply step_val_inj.
Qed.

Theorem thash_status b sd stp st st' : admissible st = true -> admissible st' = true -> st <> st' ->
  thash_of b sd stp st <> thash_of b sd stp st'.
Proof.
  intros A A' Hne. unfold thash_of. apply lxor_neq_cancel_l. intros E. apply Hne. now apply status_value_inj.
Qed.

(* two boards whose cells agree everywhere except on the squares of `ds` *)
Lemma board_part_diff b b' :
  N.lxor (board_part b) (board_part b') = xsum (fun i => N.lxor (cv (cell b i) i) (cv (cell b' i) i)) sq64.
Proof. unfold board_part. now rewrite xsum_xor. Qed.

Lemma lxor_neq_of_diff a b : N.lxor a b <> 0 -> a <> b.
Proof. intros H E. apply H. subst. apply N.lxor_nilpotent. Qed.

Theorem thash_cell b b' sd stp st i : WFb b -> WFb b' -> i < 64 ->
  (forall j, j < 64 -> j <> i -> cell b j = cell b' j) -> cell b i <> cell b' i ->
  thash_of b sd stp st <> thash_of b' sd stp st.
Proof.
  intros W W' Hi Hsame Hdiff. unfold thash_of. apply lxor_neq_cancel_r.
  rewrite !z_from_piece_board_spec by assumption. apply lxor_neq_cancel_l.
  apply lxor_neq_of_diff. rewrite board_part_diff.
  rewrite (xsum_single _ sq64 i NoDup_sq64).
  - intros E. apply Hdiff. apply (cv_inj i); [exact Hi|]. now apply N.lxor_eq.
  - now apply In_sq64.
  - intros j Hj Hne. apply In_sq64 in Hj. rewrite (Hsame j Hj Hne). apply N.lxor_nilpotent.
Qed.

(* a sum with exactly two non-zero terms *)
Lemma xsum_two {A} (f : A -> N) l a b :
  NoDup l -> In a l -> In b l -> a <> b -> (forall x, In x l -> x <> a -> x <> b -> f x = 0) ->
  xsum f l = N.lxor (f a) (f b).
Proof.
  induction l as [|x l IH]; intros ND Ha Hb Hab Hz; [contradiction|].
  rewrite xsum_cons. inversion ND as [|? ? Hnx ND']; subst.
  destruct Ha as [->|Ha]; destruct Hb as [->|Hb].
  - contradiction.
  - f_equal. apply xsum_single; auto. intros y Hy Hne. apply Hz; [now right| |exact Hne]. intros ->. contradiction.
  - rewrite N.lxor_comm. f_equal. apply xsum_single; auto. intros y Hy Hne. apply Hz; [now right|exact Hne|]. intros ->. contradiction.
  - rewrite (Hz x); [|now left|intros ->; contradiction|intros ->; contradiction]. rewrite N.lxor_0_l.
    apply IH; auto. intros y Hy. apply Hz. now right.
Qed.

Theorem thash_moved b b' sd stp st p q o k : WFb b -> WFb b' -> p < 64 -> q < 64 -> p <> q ->
  cell b p = Some (o, k) -> cell b q = None -> cell b' p = None -> cell b' q = Some (o, k) ->
  (forall j, j < 64 -> j <> p -> j <> q -> cell b j = cell b' j) ->
  thash_of b sd stp st <> thash_of b' sd stp st.
Proof.
  intros W W' Hp Hq Hpq Bp Bq B'p B'q Hsame. unfold thash_of. apply lxor_neq_cancel_r.
  rewrite !z_from_piece_board_spec by assumption. apply lxor_neq_cancel_l.
  apply lxor_neq_of_diff. rewrite board_part_diff.
  rewrite (xsum_two _ sq64 p q NoDup_sq64); try (now apply In_sq64); try exact Hpq.
  - rewrite Bp, Bq, B'p, B'q. cbn [cv]. rewrite N.lxor_0_r, N.lxor_0_l.
    intros E. apply Hpq. apply (cv_square_inj o k); auto. now apply N.lxor_eq.
  - intros j Hj H1 H2. apply In_sq64 in Hj. rewrite (Hsame j Hj H1 H2). apply N.lxor_nilpotent.
Qed.
