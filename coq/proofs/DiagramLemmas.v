(* C15: the diagram parser (repaired) never panics; decimal header round trip; the letters of the
   printed diagram decode to the cells.  The full print/parse round trip is assembled from these in
   a later file (work in progress); it is exercised on every visited state by monitors 15.1-15.4. *)
From Coq Require Import NArith ZArith List Bool Lia ZifyBool ZifyN DecimalN DecimalPos Decimal String.
From Arimaa Require Import Types U64 GenMasks GenEnums GenUnicode GenZobrist Board Zobrist Engine Notation Display Trace Cells Rules Monitors
  Fin BitLemmas StepLemmas GenLemmas.
Import ListNotations.
Open Scope N_scope.

(* ---- totality ---- *)
Theorem parse_state_total t : parse_state_fixed t <> Panic.
Proof.
  unfold parse_state_fixed. cbv zeta.
  match goal with |- context [header_match ?x] => destruct (header_match x) as [[ds c]|] end.
  - destruct (parse_usize ds); [|discriminate]. destruct (a_oob (scan_board (odd_elems (split_on 124 t)))); discriminate.
  - destruct (a_oob (scan_board (odd_elems (split_on 124 t)))); discriminate.
Qed.

(* F1: the unrepaired parser panicked on oversized and on non-ASCII move numbers, and (debug) on a 9th row *)
Definition txt_huge : text := str "99999999999999999999999g"%string.
Definition txt_arabic_digit : text := [1633; 103].
Lemma F1_parse_orig_panics :
  parse_state_orig true txt_huge = Panic /\ parse_state_orig false txt_huge = Panic /\
  parse_state_orig false txt_arabic_digit = Panic.
Proof. repeat split; vm_compute; reflexivity. Qed.
Lemma F1_fixed_rejects : parse_state_fixed txt_huge = Err /\ parse_state_fixed txt_arabic_digit = Err.
Proof. split; vm_compute; reflexivity. Qed.

(* ---- decimal numbers ---- *)
Definition dstep (acc c : N) : N := acc * 10 + (c - 48).

Lemma fold_digits_pos d p :
  fold_left dstep (uint_digits d) (Npos p) = Npos (Pos.of_uint_acc d p).
Proof.
  revert p. induction d; intros p; cbn [uint_digits fold_left Pos.of_uint_acc]; try reflexivity;
    rewrite <- IHd; f_equal; unfold dstep; lia.
Qed.

Lemma fold_digits_zero d : fold_left dstep (uint_digits d) 0 = Pos.of_uint d.
Proof.
  induction d; cbn [uint_digits fold_left Pos.of_uint]; try reflexivity; try exact IHd;
    unfold dstep at 2; cbn [N.mul N.add N.sub]; apply fold_digits_pos.
Qed.

Lemma digits_ascii d : forallb is_ascii_digit (uint_digits d) = true.
Proof. induction d; cbn; auto. Qed.

Theorem parse_print_dec n : n < P64 -> parse_usize (print_dec n) = Some n.
Proof.
  intros H. unfold parse_usize, print_dec. rewrite digits_ascii.
  change (fun acc c : N => acc * 10 + (c - 48)) with dstep.
  rewrite fold_digits_zero. change (Pos.of_uint (N.to_uint n)) with (N.of_uint (N.to_uint n)).
  rewrite DecimalN.Unsigned.of_to. destruct (N.ltb_spec n P64); [reflexivity|lia].
Qed.

Lemma print_dec_nonempty n : print_dec n <> [].
Proof.
  unfold print_dec. destruct n as [|p]; [discriminate|]. cbn [N.to_uint].
  pose proof (DecimalPos.Unsigned.to_uint_nonnil p) as H. destruct (Pos.to_uint p); [congruence|discriminate..].
Qed.

(* ---- the letters of the diagram ---- *)
Definition letter_decodes (c : option (bool * piece)) (l : N) : bool :=
  match c, assoc l diagram_piece_of_letter_table with
  | Some (o, k), Some k' => piece_eqb k k' && Bool.eqb o (is_ascii_upper l)
  | None, None => true
  | _, _ => false
  end.

Definition cell_letter (c : option (bool * piece)) (i : N) : N :=
  match c with
  | Some (o, k) => convert_piece_to_letter k o
  | None => if existsb (N.eqb i) DIAGRAM_TRAP_INDICES then 120 else 32
  end.

Lemma all_letters_decode :
  forallb (fun c => forallb (fun i => letter_decodes c (cell_letter c i) && negb (cell_letter c i =? 124)) sq64)
          (None :: flat_map (fun o => map (fun k => Some (o, k)) all_pieces_list) [true; false]) = true.
Proof. vm_compute. reflexivity. Qed.

Lemma square_letter_cell b i : WFb b -> i < 64 -> square_letter b i = cell_letter (cell b i) i.
Proof.
  intros W Hi. unfold square_letter, cell_letter. rewrite piece_type_at_square_spec by assumption.
  destruct (cell b i) as [[o k]|] eqn:E; cbn [option_map snd]; [|reflexivity].
  f_equal. unfold is_p1_piece. rewrite land_bit_zero', negb_involutive, player_mask_spec by assumption.
  unfold friend_at. rewrite E. destruct o; reflexivity.
Qed.

(* the letter printed for a square decodes to that square's content and is never the separator '|' *)
Theorem diagram_letter_decodes b i : WFb b -> i < 64 ->
  letter_decodes (cell b i) (square_letter b i) = true /\ square_letter b i <> 124.
Proof.
  intros W Hi. rewrite square_letter_cell by assumption.
  pose proof all_letters_decode as S. rewrite forallb_forall in S.
  assert (In (cell b i) (None :: flat_map (fun o => map (fun k => Some (o, k)) all_pieces_list) [true; false])) as I
    by (destruct (cell b i) as [[[] []]|]; cbn; tauto).
  specialize (S _ I). pose proof (forall_sq64 _ S i Hi) as S'. cbv beta in S'. apply andb_prop in S'. destruct S' as [S1 S2].
  split; [exact S1|]. apply negb_true_iff, N.eqb_neq in S2. exact S2.
Qed.
