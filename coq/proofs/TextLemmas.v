(* C16: notation of squares, pieces, directions and actions (the repaired parsers of /repo). *)
From Coq Require Import NArith ZArith List Bool Lia ZifyBool ZifyN.
From Arimaa Require Import Types U64 GenMasks GenEnums Board Engine Notation Display Trace Monitors Fin BitLemmas StepLemmas GenLemmas.
Import ListNotations.
Open Scope N_scope.

(* ---- round trips: every value prints to text that parses back to it (finite, enumerated completely) ---- *)
Definition square_roundtrip_ok (s : N) : bool :=
  match parse_square_fixed (print_square s) with Ok s' => s' =? s | _ => false end.
Lemma square_roundtrip_sweep : forallb square_roundtrip_ok sq64 = true.
Proof. vm_compute. reflexivity. Qed.

Theorem square_roundtrip s : s < 64 -> parse_square_fixed (print_square s) = Ok s.
Proof.
  intros H. pose proof (forall_sq64 _ square_roundtrip_sweep s H) as R. unfold square_roundtrip_ok in R.
  destruct (parse_square_fixed (print_square s)) as [s'| |]; try discriminate. apply N.eqb_eq in R. now subst.
Qed.

Theorem piece_roundtrip k : parse_piece (print_piece k) = Ok k.
Proof. destruct k; vm_compute; reflexivity. Qed.
Theorem dir_roundtrip d : parse_dir (print_dir d) = Ok d.
Proof. destruct d; vm_compute; reflexivity. Qed.

Definition move_roundtrip_ok (s : N) : bool :=
  forallb (fun d => match parse_action_fixed (print_action (Move s d)) with Ok a => action_eqb a (Move s d) | _ => false end) all_dirs_list.
Lemma move_roundtrip_sweep : forallb move_roundtrip_ok sq64 = true.
Proof. vm_compute. reflexivity. Qed.

Lemma action_eqb_eq a b : action_eqb a b = true -> a = b.
Proof.
  destruct a as [k|s d|], b as [k'|s' d'|]; cbn; try discriminate; auto.
  - intros H. destruct (piece_eqb_spec k k'); [now subst|discriminate].
  - intros H. apply andb_prop in H. destruct H as [H1 H2]. apply N.eqb_eq in H1. destruct (dir_eqb_spec d d'); [now subst|discriminate].
Qed.

Theorem action_roundtrip a : (match a with Move s _ => s < 64 | _ => True end) -> parse_action_fixed (print_action a) = Ok a.
Proof.
  destruct a as [k|s d|]; intros H.
  - destruct k; vm_compute; reflexivity.
  - pose proof (forall_sq64 _ move_roundtrip_sweep s H) as R. unfold move_roundtrip_ok in R.
    pose proof (forall_dirs _ R d) as R'. cbv beta in R'.
    destruct (parse_action_fixed (print_action (Move s d))) as [a| |]; try discriminate. apply action_eqb_eq in R'. now subst.
  - vm_compute. reflexivity.
Qed.

(* ---- totality: the parsers return a value or an error, never a panic ---- *)
Theorem parse_piece_total t : parse_piece t <> Panic.
Proof. unfold parse_piece. destruct t as [|c [|? ?]]; try discriminate. destruct (assoc c piece_of_letter_table); discriminate. Qed.
Theorem parse_dir_total t : parse_dir t <> Panic.
Proof. unfold parse_dir. destruct t as [|c [|? ?]]; try discriminate. destruct (assoc c dir_of_letter_table); discriminate. Qed.
Theorem parse_square_total t : parse_square_fixed t <> Panic.
Proof.
  unfold parse_square_fixed. destruct t as [|c [|r [|? ?]]]; try discriminate.
  destruct (is_ascii_digit r); [|discriminate].
  match goal with |- (if ?c then _ else _) <> _ => destruct c end; discriminate.
Qed.
Theorem parse_action_total t : parse_action_fixed t <> Panic.
Proof.
  unfold parse_action_fixed. destruct t as [|c0 [|c1 [|c2 [|? ?]]]]; try discriminate.
  - destruct (c0 =? 112); [discriminate|]. destruct (parse_piece [c0]); discriminate.
  - destruct (parse_square_fixed [c0; c1]); try discriminate. destruct (parse_dir [c2]); discriminate.
Qed.

(* ---- exactness: success only for the printed form of the result (piece letters may be upper case) ---- *)
Fixpoint rangeN (lo : N) (n : nat) : list N := match n with O => [] | S k => lo :: rangeN (lo + 1) k end.
Lemma In_rangeN lo n x : lo <= x < lo + N.of_nat n -> In x (rangeN lo n).
Proof.
  revert lo. induction n as [|n IH]; intros lo H; [lia|]. cbn [rangeN].
  destruct (N.eq_dec lo x) as [->|Hne]; [now left|]. right. apply IH. lia.
Qed.

Definition square_exact_ok : bool :=
  forallb (fun c => forallb (fun r => list_eqb (print_square (sq_new c (r - 48))) [c; r]) (rangeN 49 8)) (rangeN 97 8).
Lemma square_exact_sweep : square_exact_ok = true.
Proof. vm_compute. reflexivity. Qed.

Lemma list_eqb_eq a b : list_eqb a b = true -> a = b.
Proof.
  revert b. induction a as [|x a IH]; intros [|y b]; cbn; try discriminate; auto.
  intros H. apply andb_prop in H. destruct H as [H1 H2]. apply N.eqb_eq in H1. subst. f_equal. now apply IH.
Qed.

Theorem parse_square_exact t s : parse_square_fixed t = Ok s -> t = print_square s /\ s < 64.
Proof.
  unfold parse_square_fixed. destruct t as [|c [|r [|? ?]]]; try discriminate.
  destruct (is_ascii_digit r) eqn:D; [|discriminate].
  destruct ((ASCII_LETTER_A <=? c) && (c <? ASCII_LETTER_A + BOARD_WIDTH) && (1 <=? r - 48) && (r - 48 <=? BOARD_HEIGHT)) eqn:C; [|discriminate].
  intros [= <-]. unfold is_ascii_digit in D. change ASCII_LETTER_A with 97 in C. change BOARD_WIDTH with 8 in C. change BOARD_HEIGHT with 8 in C.
  assert (In c (rangeN 97 8)) as Ic by (apply In_rangeN; cbn; lia).
  assert (In r (rangeN 49 8)) as Ir by (apply In_rangeN; cbn; lia).
  pose proof square_exact_sweep as S. unfold square_exact_ok in S. rewrite forallb_forall in S. specialize (S c Ic).
  rewrite forallb_forall in S. specialize (S r Ir). apply list_eqb_eq in S. split; [now symmetry|].
  (* the index is on the board *)
  clear S. cbn [rangeN In] in Ic, Ir.
  repeat (destruct Ic as [<-|Ic]; [repeat (destruct Ir as [<-|Ir]; [vm_compute; reflexivity|]); contradiction|]). contradiction.
Qed.

Definition letters_exact_ok : bool :=
  forallb (fun e => let c := fst e in let k := snd e in (c =? piece_letter k) || (is_ascii_upper c && (c + 32 =? piece_letter k))) piece_of_letter_table.
Lemma letters_exact_sweep : letters_exact_ok = true.
Proof. vm_compute. reflexivity. Qed.

Lemma assoc_In {A} c (t : list (N * A)) v : assoc c t = Some v -> In (c, v) t.
Proof.
  induction t as [|[c' v'] t IH]; [discriminate|]. cbn [assoc]. destruct (N.eqb_spec c c') as [->|].
  - intros [= ->]. now left.
  - intros H. right. now apply IH.
Qed.

Theorem parse_piece_exact t k : parse_piece t = Ok k -> up_ok t (print_piece k) = true.
Proof.
  unfold parse_piece. destruct t as [|c [|? ?]]; try discriminate.
  destruct (assoc c piece_of_letter_table) as [k'|] eqn:E; [|discriminate]. intros [= <-].
  apply assoc_In in E. pose proof letters_exact_sweep as S. unfold letters_exact_ok in S. rewrite forallb_forall in S.
  specialize (S _ E). cbn [fst snd] in S. unfold up_ok, print_piece. cbn [list_eqb]. rewrite andb_true_r. exact S.
Qed.

Definition dirs_exact_ok : bool := forallb (fun e => fst e =? dir_letter (snd e)) dir_of_letter_table.
Lemma dirs_exact_sweep : dirs_exact_ok = true.
Proof. vm_compute. reflexivity. Qed.

Theorem parse_dir_exact t d : parse_dir t = Ok d -> t = print_dir d.
Proof.
  unfold parse_dir. destruct t as [|c [|? ?]]; try discriminate.
  destruct (assoc c dir_of_letter_table) as [d'|] eqn:E; [|discriminate]. intros [= <-].
  apply assoc_In in E. pose proof dirs_exact_sweep as S. unfold dirs_exact_ok in S. rewrite forallb_forall in S.
  specialize (S _ E). cbn [fst snd] in S. apply N.eqb_eq in S. unfold print_dir. now subst.
Qed.

Theorem parse_action_exact t a : parse_action_fixed t = Ok a ->
  match a with
  | Place k => up_ok t (print_action a) = true
  | Move s _ => t = print_action a /\ s < 64
  | Pass => t = print_action a
  end.
Proof.
  unfold parse_action_fixed. destruct t as [|c0 [|c1 [|c2 [|? ?]]]]; try discriminate.
  - destruct (N.eqb_spec c0 112) as [->|Hne]; [intros [= <-]; reflexivity|].
    destruct (parse_piece [c0]) as [k| |] eqn:E; try discriminate. intros [= <-]. now apply parse_piece_exact.
  - destruct (parse_square_fixed [c0; c1]) as [s| |] eqn:Es; try discriminate.
    destruct (parse_dir [c2]) as [d| |] eqn:Ed; try discriminate. intros [= <-].
    apply parse_square_exact in Es. destruct Es as [Es Hs]. apply parse_dir_exact in Ed.
    split; [|exact Hs]. cbn [print_action]. rewrite <- Es, <- Ed. reflexivity.
Qed.

(* ---- squares, indices and single-bit boards ---- *)
Definition square_maps_ok (i : N) : bool :=
  (sq_as_bit_board i =? 2 ^ i) && (sq_from_bit_board (sq_as_bit_board i) =? i) &&
  (sq_column_char i =? 97 + i mod 8) && (sq_row i =? 8 - i / 8) && (sq_new (sq_column_char i) (sq_row i) =? i) &&
  list_eqb (print_square i) [97 + i mod 8; 48 + (8 - i / 8)].
Lemma square_maps_sweep : forallb square_maps_ok sq64 = true.
Proof. vm_compute. reflexivity. Qed.

Theorem square_maps i : i < 64 ->
  sq_as_bit_board i = 2 ^ i /\ sq_from_bit_board (sq_as_bit_board i) = i /\
  sq_column_char i = 97 + i mod 8 /\ sq_row i = 8 - i / 8 /\ sq_new (sq_column_char i) (sq_row i) = i /\
  print_square i = [97 + i mod 8; 48 + (8 - i / 8)].
Proof.
  intros H. pose proof (forall_sq64 _ square_maps_sweep i H) as S. unfold square_maps_ok in S.
  repeat (apply andb_prop in S; destruct S as [S ?]).
  repeat match goal with H : (_ =? _) = true |- _ => apply N.eqb_eq in H end.
  match goal with H : list_eqb _ _ = true |- _ => apply list_eqb_eq in H end. auto 10.
Qed.

(* map_bit_board_to_squares lists exactly the set bits, each once *)
Theorem bits_listed b i : In i (bits_of b) <-> i < 64 /\ N.testbit b i = true.
Proof. apply In_bits_of. Qed.

(* ---- F2 / F3: the original parsers did panic / accept non-printed text (model of the unrepaired code) ---- *)
Lemma F2_action_orig_panics : parse_action_orig true [97; 233; 110] = Panic /\ parse_action_orig false [8364; 49; 50] = Panic.
Proof. split; vm_compute; reflexivity. Qed.
Lemma F3_square_orig_panics : parse_square_orig true [65; 49] = Panic /\ parse_square_orig false [353; 49] = Ok 56.
Proof. split; vm_compute; reflexivity. Qed.
