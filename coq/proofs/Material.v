(* Material: a step never adds a piece and a capture removes one (C02), hence positions before a capture never recur. *)
From Coq Require Import NArith ZArith List Bool Lia ZifyBool ZifyN.
From Arimaa Require Import Types U64 GenMasks GenEnums GenZobrist Board Zobrist Engine Notation Display Trace Cells Rules Monitors
  Fin XorFold Hash HashSens BitLemmas StepLemmas GenLemmas Refine Invariant TurnLemmas HashInv Live Setup Reach Traps RepInv.
Import ListNotations.
Open Scope N_scope.
Strategy opaque [bits_of].

Definition npc (c : cellf) : nat := length (filter (occupied c) sq64).
(* pieces of one owner and kind *)
Definition npk (c : cellf) (o : bool) (k : piece) : nat := length (filter (is_piece c o k) sq64).

Section Count.
  Variables f g : N -> bool.
  Variables i t : N.
  Hypothesis Hit : i <> t.
  Hypothesis Hsame : forall x, x <> i -> x <> t -> g x = f x.

  Lemma count_none l : ~ In i l -> ~ In t l -> length (filter g l) = length (filter f l).
  Proof.
    intros Hi Ht. f_equal. apply filter_ext_in'. intros x Hx. apply Hsame; intros ->; contradiction.
  Qed.

  Lemma count_gain l : NoDup l -> In t l -> ~ In i l -> f t = false -> g t = true ->
    length (filter g l) = S (length (filter f l)).
  Proof.
    induction l as [|x l IH]; intros ND Ht Hi Ft Gt; [contradiction|]. inversion ND as [|? ? Hx ND']; subst. cbn [filter].
    destruct Ht as [->|Ht].
    - rewrite Ft, Gt. cbn [length]. f_equal. apply count_none; [intros X; apply Hi; now right|exact Hx].
    - assert (x <> i) by (intros ->; apply Hi; now left). assert (x <> t) by (intros ->; contradiction).
      rewrite (Hsame x) by assumption. assert (IH' := IH ND' Ht (fun X => Hi (or_intror X)) Ft Gt).
      destruct (f x); cbn [length]; lia.
  Qed.

  Lemma count_lose l : NoDup l -> In i l -> ~ In t l -> f i = true -> g i = false ->
    S (length (filter g l)) = length (filter f l).
  Proof.
    induction l as [|x l IH]; intros ND Hi Ht Fi Gi; [contradiction|]. inversion ND as [|? ? Hx ND']; subst. cbn [filter].
    destruct Hi as [->|Hi].
    - rewrite Fi, Gi. cbn [length]. f_equal. apply count_none; [exact Hx|intros X; apply Ht; now right].
    - assert (x <> t) by (intros ->; apply Ht; now left). assert (x <> i) by (intros ->; contradiction).
      rewrite (Hsame x) by assumption. assert (IH' := IH ND' Hi (fun X => Ht (or_intror X)) Fi Gi).
      destruct (f x); cbn [length]; lia.
  Qed.

  Lemma count_swap l : NoDup l -> In i l -> In t l -> f i = true -> f t = false -> g i = false -> g t = true ->
    length (filter g l) = length (filter f l).
  Proof.
    induction l as [|x l IH]; intros ND Hi Ht Fi Ft Gi Gt; [contradiction|]. inversion ND as [|? ? Hx ND']; subst. cbn [filter].
    destruct (N.eq_dec x i) as [->|Hxi].
    - rewrite Fi, Gi. cbn [length]. destruct Ht as [E|Ht]; [congruence|]. now apply count_gain.
    - destruct (N.eq_dec x t) as [->|Hxt].
      + rewrite Ft, Gt. cbn [length]. destruct Hi as [E|Hi]; [congruence|]. now apply count_lose.
      + rewrite (Hsame x) by assumption.
        destruct Hi as [E|Hi]; [congruence|]. destruct Ht as [E|Ht]; [congruence|].
        assert (IH' := IH ND' Hi Ht Fi Ft Gi Gt). destruct (f x); cbn [length]; lia.
  Qed.
End Count.

Lemma filter_len_le (p q : N -> bool) l : (forall x, In x l -> p x = true -> q x = true) -> (length (filter p l) <= length (filter q l))%nat.
Proof.
  induction l as [|x l IH]; intros H; [apply le_n|]. cbn [filter].
  assert (IH' := IH (fun y Hy => H y (or_intror Hy))).
  destruct (p x) eqn:P; [rewrite (H x (or_introl eq_refl) P); cbn [length]; lia|destruct (q x); cbn [length]; lia].
Qed.

Lemma filter_len_lt (p q : N -> bool) l z : (forall x, In x l -> p x = true -> q x = true) -> In z l -> q z = true -> p z = false ->
  (length (filter p l) < length (filter q l))%nat.
Proof.
  induction l as [|x l IH]; intros H Hz Qz Pz; [contradiction|]. cbn [filter].
  pose proof (filter_len_le p q l (fun y Hy => H y (or_intror Hy))) as LE.
  destruct Hz as [->|Hz].
  - rewrite Qz, Pz. cbn [length]. lia.
  - assert (IH' := IH (fun y Hy => H y (or_intror Hy)) Hz Qz Pz).
    destruct (p x) eqn:P; [rewrite (H x (or_introl eq_refl) P); cbn [length]; lia|destruct (q x); cbn [length]; lia].
Qed.

(* moving a piece onto an empty square keeps every count *)
Lemma npc_moved c i t : i < 64 -> t < 64 -> i <> t -> occupied c i = true -> c t = None -> npc (moved c i t) = npc c.
Proof.
  intros Hi Ht Hne Oi Ct. unfold npc. apply (count_swap (occupied c) (occupied (moved c i t)) i t Hne).
  - intros x H1 H2. unfold occupied, moved. destruct (N.eqb_spec x t); [contradiction|]. destruct (N.eqb_spec x i); [contradiction|reflexivity].
  - apply NoDup_sq64. - now apply In_sq64. - now apply In_sq64. - exact Oi.
  - unfold occupied. now rewrite Ct.
  - unfold occupied, moved. destruct (N.eqb_spec i t); [contradiction|]. now rewrite N.eqb_refl.
  - unfold occupied, moved. rewrite N.eqb_refl. exact Oi.
Qed.

Lemma npk_moved c i t o k : i < 64 -> t < 64 -> i <> t -> c t = None -> npk (moved c i t) o k = npk c o k.
Proof.
  intros Hi Ht Hne Ct. unfold npk.
  destruct (is_piece c o k i) eqn:Pi.
  - apply (count_swap (is_piece c o k) (is_piece (moved c i t) o k) i t Hne).
    + intros x H1 H2. unfold is_piece, moved. destruct (N.eqb_spec x t); [contradiction|]. destruct (N.eqb_spec x i); [contradiction|reflexivity].
    + apply NoDup_sq64. + now apply In_sq64. + now apply In_sq64. + exact Pi.
    + unfold is_piece. now rewrite Ct.
    + unfold is_piece, moved. destruct (N.eqb_spec i t); [contradiction|]. now rewrite N.eqb_refl.
    + unfold is_piece, moved. rewrite N.eqb_refl. exact Pi.
  - f_equal. apply filter_ext_in'. intros x _. unfold is_piece, moved.
    destruct (N.eqb_spec x t) as [->|]; [rewrite Ct; unfold is_piece in Pi; exact Pi|].
    destruct (N.eqb_spec x i) as [->|]; [unfold is_piece in Pi; rewrite Pi; reflexivity|reflexivity].
Qed.

Lemma npk_captures c o k : (npk (after_captures c) o k <= npk c o k)%nat.
Proof.
  unfold npk. apply filter_len_le. intros x _. unfold is_piece, after_captures. destruct (unsupported_on_trap c x); [discriminate|auto].
Qed.
Lemma npc_captures c : (npc (after_captures c) <= npc c)%nat.
Proof.
  unfold npc. apply filter_len_le. intros x _. unfold occupied, after_captures. destruct (unsupported_on_trap c x); [discriminate|auto].
Qed.
Lemma npc_captures_lt c z : z < 64 -> unsupported_on_trap c z = true -> (npc (after_captures c) < npc c)%nat.
Proof.
  intros Hz U. unfold npc. apply (filter_len_lt _ _ sq64 z).
  - intros x _. unfold occupied, after_captures. destruct (unsupported_on_trap c x); [discriminate|auto].
  - now apply In_sq64.
  - unfold unsupported_on_trap in U. unfold occupied. destruct (c z); [reflexivity|now rewrite andb_false_r in U].
  - unfold occupied, after_captures. now rewrite U.
Qed.

Lemma npk_ext (c c' : cellf) o k : (forall x, x < 64 -> c x = c' x) -> npk c o k = npk c' o k.
Proof. intros H. unfold npk. f_equal. apply filter_ext_in'. intros x Hx. unfold is_piece. rewrite H; [reflexivity|now apply In_sq64]. Qed.
Lemma npc_ext (c c' : cellf) : (forall x, x < 64 -> c x = c' x) -> npc c = npc c'.
Proof. intros H. unfold npc. f_equal. apply filter_ext_in'. intros x Hx. unfold occupied. rewrite H; [reflexivity|now apply In_sq64]. Qed.

(* C02: material never increases, per owner and kind, in one offered step ... *)
Theorem step_material s pp i d o k : PlayInv s pp -> In (Move i d) (valid_actions_no_rep s) ->
  (npk (cell (board (take_action s (Move i d)))) o k <= npk (cell (board s)) o k)%nat.
Proof.
  intros Inv Off. pose proof (offered_move_pre s pp i d Inv Off) as [Hi (t & o0 & k0 & Hd & Hc & Ht)].
  pose proof (inv_board s pp Inv) as W.
  rewrite (npk_ext _ (after_captures (moved (cell (board s)) i t))).
  2:{ intros x Hx. cbn [take_action]. rewrite (move_piece_unfold s pp i d (inv_phase s pp Inv)). cbv zeta. cbn [board].
      now apply take_move_cell. }
  eapply Nat.le_trans; [apply npk_captures|]. rewrite npk_moved; auto.
  - now apply (dst_lt64 i d t).
  - intros E. apply (dst_neq i d t Hd Hi). now symmetry.
Qed.

(* ... and the number of pieces drops strictly when the step reports a capture *)
Theorem step_npc s pp i d : PlayInv s pp -> In (Move i d) (valid_actions_no_rep s) ->
  let b' := board (take_action s (Move i d)) in
  (npc (cell b') <= npc (cell (board s)))%nat /\
  (snd (pb_take_move (board s) i d) = true -> (npc (cell b') < npc (cell (board s)))%nat).
Proof.
  intros Inv Off. cbv zeta. pose proof (offered_move_pre s pp i d Inv Off) as [Hi (t & o0 & k0 & Hd & Hc & Ht)].
  pose proof (inv_board s pp Inv) as W.
  assert (t < 64) as Ht64 by now apply (dst_lt64 i d t).
  assert (i <> t) as Hne by (intros E; apply (dst_neq i d t Hd Hi); now symmetry).
  rewrite (npc_ext _ (after_captures (moved (cell (board s)) i t))).
  2:{ intros x Hx. cbn [take_action]. rewrite (move_piece_unfold s pp i d (inv_phase s pp Inv)). cbv zeta. cbn [board].
      now apply take_move_cell. }
  assert (npc (moved (cell (board s)) i t) = npc (cell (board s))) as M.
  { apply npc_moved; auto. unfold occupied. now rewrite Hc. }
  split; [rewrite <- M; apply npc_captures|].
  intros Cap. unfold pb_take_move in Cap. rewrite remove_trapped_flag in Cap by (now apply (move_piece_WFb (board s) i d t)).
  apply exists_sq64 in Cap. destruct Cap as [z [Hz U]].
  rewrite (unsupported_ext _ (moved (cell (board s)) i t)) in U by (intros x; now apply move_piece_cell).
  rewrite <- M. now apply (npc_captures_lt _ z).
Qed.

Lemma beq_npc b b' : beq b b' -> npc (cell b) = npc (cell b').
Proof. intros E. now apply npc_ext. Qed.

(* ---- the full history: positions before the last capture have strictly more pieces ---- *)
Record MatInv (s : state) (pp : play) (G Old : list pos) (b0 : pbs) : Prop := {
  mi_rep : RepInv s pp G b0;
  mi_b0 : (npc (cell (board s)) <= npc (cell b0))%nat;
  mi_b0_lt : trapped pp = true -> (npc (cell (board s)) < npc (cell b0))%nat;
  mi_G : forall x, In x G -> (npc (cell (board s)) <= npc (cell (fst x)))%nat;
  mi_old : forall x, In x Old -> (npc (cell (board s)) < npc (cell (fst x)))%nat;
}.

Definition old_next (s : state) (G Old : list pos) (a : action) : list pos :=
  match a with
  | Move i d => if snd (pb_take_move (board s) i d) then G ++ Old else Old
  | _ => Old
  end.

Lemma full_history_grows s pp G Old b0 a : is_turn_end s a = true -> ph s = PlayPhase pp ->
  fst (ghost_next s pp G b0 a) ++ old_next s G Old a =
  (board (take_action s a), negb (side s)) :: (G ++ Old).
Proof.
  intros TE Hph. unfold is_turn_end in TE. rewrite Hph in TE. destruct a as [k|i d|]; [discriminate| |].
  - cbn [ghost_next old_next]. cbv zeta. rewrite TE. cbn [fst]. apply N.leb_le in TE.
    destruct (move_fields_last s pp i d Hph TE) as (_ & F2 & _). rewrite F2.
    destruct (snd (pb_take_move (board s) i d)); reflexivity.
  - cbn [ghost_next old_next fst]. destruct (pass_fields s pp Hph) as (_ & F2 & _). now rewrite F2.
Qed.

Theorem mat_start s : StartPosition s -> exists pp, MatInv s pp [(board s, side s)] [] (board s).
Proof.
  intros Hs. destruct (rep_start s Hs) as [pp RI]. exists pp. constructor; auto.
  - intros T. destruct Hs as (h & P & _). pose proof (inv_phase s pp (hi_play s pp (ri_hash _ _ _ _ RI))) as P'.
    rewrite P in P'. injection P' as <-. discriminate.
  - intros x [<-|[]]. apply le_n.
  - intros x [].
Qed.

Theorem mat_preserved s pp G Old b0 a : MatInv s pp G Old b0 -> In a (valid_actions_no_rep s) ->
  exists pp', MatInv (take_action s a) pp' (fst (ghost_next s pp G b0 a)) (old_next s G Old a) (snd (ghost_next s pp G b0 a)).
Proof.
  intros [RI B0 B0lt HG HO] Off. destruct (rep_preserved s pp G b0 a RI Off) as [pp' RI']. exists pp'.
  pose proof (hi_play s pp (ri_hash _ _ _ _ RI)) as Inv. pose proof (inv_phase s pp Inv) as Hph.
  pose proof (inv_phase _ pp' (hi_play _ pp' (ri_hash _ _ _ _ RI'))) as Hph'.
  destruct a as [k|i d|].
  - exfalso. destruct Inv as [H1 H2 _ _ H5]. now apply (T1_no_place s pp H1 H2 (status_inv_ok _ _ _ H5) k).
  - destruct (step_npc s pp i d Inv Off) as [LE LT]. cbv zeta in LE, LT.
    change (take_action s (Move i d)) with (move_piece s i d) in *.
    assert (board (move_piece s i d) = fst (pb_take_move (board s) i d)) as Eb by (rewrite (move_piece_unfold s pp i d Hph); reflexivity).
    constructor; [exact RI'| | | |]; cbn [ghost_next old_next]; cbv zeta; rewrite ?Eb in *.
    + destruct (N.leb_spec 3 (step_of pp)) as [L|L]; cbn [snd]; [apply le_n|lia].
    + destruct (N.leb_spec 3 (step_of pp)) as [L|L]; cbn [snd].
      * destruct (move_fields_last s pp i d Hph L) as (_ & _ & F3). change (take_action s (Move i d)) with (move_piece s i d) in F3.
        rewrite F3 in Hph'. injection Hph' as <-. discriminate.
      * destruct (move_fields_mid s pp i d Hph L) as (_ & _ & pp2 & F3 & _ & _ & F6). change (take_action s (Move i d)) with (move_piece s i d) in F3.
        rewrite F3 in Hph'. injection Hph' as <-. rewrite F6. intros T. apply orb_prop in T. destruct T as [T|T]; [specialize (B0lt T); lia|specialize (LT T); lia].
    + intros x Hx. destruct (N.leb_spec 3 (step_of pp)) as [L|L]; cbn [fst] in Hx.
      * destruct Hx as [<-|Hx]; [cbn [fst]; apply le_n|].
        destruct (snd (pb_take_move (board s) i d)); [destruct Hx|]. specialize (HG x Hx). lia.
      * destruct (snd (pb_take_move (board s) i d)); [destruct Hx|]. specialize (HG x Hx). lia.
    + intros x Hx. destruct (snd (pb_take_move (board s) i d)) eqn:Cap.
      * specialize (LT eq_refl). apply in_app_or in Hx. destruct Hx as [Hx|Hx]; [specialize (HG x Hx)|specialize (HO x Hx)]; lia.
      * specialize (HO x Hx). lia.
  - destruct (pass_fields s pp Hph) as (_ & F2 & F3). change (take_action s Pass) with (pass s) in *.
    constructor; [exact RI'| | | |]; cbn [ghost_next old_next fst snd]; rewrite ?F2.
    + apply le_n.
    + rewrite F3 in Hph'. injection Hph' as <-. discriminate.
    + intros x [<-|Hx]; [apply le_n|now apply HG].
    + exact HO.
Qed.

Lemma filter_none_by_npc (f : pos -> bool) (L : list pos) nb sd n :
  (forall x, In x L -> (n < npc (cell (fst x)))%nat) -> (npc (cell nb) <= n)%nat ->
  (forall x, In x L -> f x = true -> peq x (nb, sd)) -> filter f L = [].
Proof.
  intros HO LE Hf. induction L as [|x O IH]; [reflexivity|]. cbn [filter].
  destruct (f x) eqn:Fx.
  - exfalso. destruct (Hf x (or_introl eq_refl) Fx) as [E _]. cbn [fst] in E.
    apply beq_npc in E. specialize (HO x (or_introl eq_refl)). lia.
  - apply IH; [intros y Hy; apply HO; now right|intros y Hy; apply Hf; now right].
Qed.

(* C05, full strength on the model: an offered (repetition-checked) turn end changes the board of the turn and creates
   at most the second occurrence of the new position in the WHOLE history since play began / the position was parsed *)
Theorem turn_end_ok s pp G Old b0 a : MatInv s pp G Old b0 -> In a (valid_actions s) -> is_turn_end s a = true ->
  let nb := board (take_action s a) in
  ~ beq nb b0 /\
  forall f, (forall x, In x (G ++ Old) -> f x = true -> peq x (nb, negb (side s))) -> (length (filter f (G ++ Old)) <= 1)%nat.
Proof.
  intros [RI B0 B0lt HG HO] Off TE. cbv zeta.
  pose proof (hi_play s pp (ri_hash _ _ _ _ RI)) as Inv. pose proof (inv_phase s pp Inv) as Hph.
  pose proof (valid_sub s pp a Inv Off) as OffN.
  assert (forall f nb, (npc (cell nb) <= npc (cell (board s)))%nat ->
            (forall x, In x (G ++ Old) -> f x = true -> peq x (nb, negb (side s))) -> filter f Old = []) as OldNone.
  { intros f nb LE Hf. apply (filter_none_by_npc f Old nb (negb (side s)) (npc (cell (board s)))); [exact HO|exact LE|].
    intros x Hx. apply Hf. apply in_or_app. now right. }
  unfold is_turn_end in TE. rewrite Hph in TE. destruct a as [k|i d|]; [discriminate| |].
  - apply N.leb_le in TE. destruct (step_npc s pp i d Inv OffN) as [LE LT]. cbv zeta in LE, LT.
    destruct (trapped pp) eqn:T.
    + (* a capture earlier in this turn: fewer pieces than at turn start and than anything in the history *)
      split.
      * intros E. apply beq_npc in E. specialize (B0lt eq_refl). lia.
      * intros f Hf. rewrite (ri_trapped _ _ _ _ RI T) in *. cbn [app] in *. rewrite (OldNone f _ LE Hf). cbn. lia.
    + destruct (fourth_step_changes_board s pp G b0 RI i d Off TE T) as [C1 C2]. cbv zeta in C1, C2. split; [exact C1|].
      intros f Hf. rewrite filter_app, app_length, (OldNone f _ LE Hf). cbn [length]. rewrite Nat.add_0_r.
      apply C2. intros x Hx. apply Hf. apply in_or_app. now left.
  - destruct (pass_fields s pp Hph) as (_ & F2 & _). rewrite F2.
    destruct (pass_changes_board s pp G b0 RI Off) as [C1 C2]. split; [exact C1|].
    intros f Hf. rewrite filter_app, app_length, (OldNone f (board s) (le_n _)); [|now rewrite <- F2].
    cbn [length]. rewrite Nat.add_0_r. apply C2. intros x Hx. rewrite <- F2. apply Hf. apply in_or_app. now left.
Qed.

(* reachability with the full ghost *)
Inductive ReachH : state -> list pos -> list pos -> pbs -> Prop :=
| RH_start s : StartPosition s -> ReachH s [(board s, side s)] [] (board s)
| RH_step s pp G Old b0 a : ReachH s G Old b0 -> ph s = PlayPhase pp -> In a (valid_actions_no_rep s) ->
    ReachH (take_action s a) (fst (ghost_next s pp G b0 a)) (old_next s G Old a) (snd (ghost_next s pp G b0 a)).

Theorem reachH_inv s G Old b0 : ReachH s G Old b0 -> exists pp, MatInv s pp G Old b0.
Proof.
  induction 1 as [s Hs|s pp G Old b0 a R IH P Off].
  - now apply mat_start.
  - destruct IH as [pp0 MI]. pose proof (inv_phase s pp0 (hi_play s pp0 (ri_hash _ _ _ _ (mi_rep _ _ _ _ _ MI)))) as P0.
    rewrite P in P0. injection P0 as <-. now apply (mat_preserved s pp G Old b0 a).
Qed.

(* ---- C06: what is withheld, on exact boards, when no 64-bit collision is involved ---- *)
(* the comparisons the engine performs in state s for the candidate result nb *)
Definition NoCollisionAt (s : state) (G : list pos) (b0 nb : pbs) : Prop :=
  (z_from_piece_board nb (side s) 0 = z_from_piece_board b0 (side s) 0 -> beq nb b0) /\
  (forall x, In x G -> hpos x = z_from_piece_board nb (negb (side s)) 0 -> peq x (nb, negb (side s))).

(* forgetting the history at a capture never matters: positions before the last capture cannot equal a later one *)
Theorem forgetting_is_harmless s pp G Old b0 nb f : MatInv s pp G Old b0 -> (npc (cell nb) <= npc (cell (board s)))%nat ->
  (forall x, In x (G ++ Old) -> f x = true -> peq x (nb, negb (side s))) ->
  length (filter f (G ++ Old)) = length (filter f G).
Proof.
  intros MI LE Hf. rewrite filter_app, app_length.
  rewrite (filter_none_by_npc f Old nb (negb (side s)) (npc (cell (board s)))); [cbn; lia|exact (mi_old _ _ _ _ _ MI)|exact LE|].
  intros x Hx. apply Hf. apply in_or_app. now right.
Qed.

(* a withheld pass: what the engine's 64-bit comparisons found *)
Theorem withheld_pass_exact_hash s pp G b0 : RepInv s pp G b0 ->
  In Pass (valid_actions_no_rep s) -> ~ In Pass (valid_actions s) ->
  z_from_piece_board (board s) (side s) 0 = z_from_piece_board b0 (side s) 0 \/
  (2 <= length (filter (fun x => (z_from_piece_board (board s) (negb (side s)) 0 =? hpos x)%N) G))%nat.
Proof.
  intros RI OffN NotV.
  pose proof (hi_play s pp (ri_hash _ _ _ _ RI)) as Inv. pose proof (inv_board s pp Inv) as W.
  apply (can_pass_norep_iff s pp Inv) in OffN.
  assert (can_pass s true = false) as CP.
  { destruct (can_pass s true) eqn:E; [|reflexivity]. exfalso. apply NotV. now apply (can_pass_rep_iff s pp Inv). }
  unfold can_pass, as_play_phase in *. rewrite (inv_phase s pp Inv) in *. cbn [negb orb] in *.
  rewrite andb_true_r in OffN. rewrite OffN in CP. cbn [andb] in CP.
  rewrite (hi_hash s pp (ri_hash _ _ _ _ RI)) in CP. rewrite z_exclude_step_spec, z_pass_spec in CP by exact W.
  rewrite (ri_init _ _ _ _ RI), (ri_hist _ _ _ _ RI) in CP.
  apply andb_false_iff in CP. destruct CP as [CP|CP].
  - left. apply negb_false_iff, N.eqb_eq in CP. now symmetry.
  - right. apply negb_false_iff in CP. unfold hash_history_contains_hash_twice in CP. apply Nat.leb_le in CP.
    now rewrite count_hash_map in CP.
Qed.

(* a withheld pass: the exact rule forbids it, unless a hash collision is involved *)
Theorem withheld_pass_exact s pp G b0 : RepInv s pp G b0 -> NoCollisionAt s G b0 (board s) ->
  In Pass (valid_actions_no_rep s) -> ~ In Pass (valid_actions s) ->
  beq (board s) b0 \/ (2 <= length (filter (fun x => (z_from_piece_board (board s) (negb (side s)) 0 =? hpos x)%N) G))%nat.
Proof.
  intros RI [NC1 NC2] OffN NotV. destruct (withheld_pass_exact_hash s pp G b0 RI OffN NotV) as [V|V]; [left; now apply NC1|now right].
Qed.

(* a withheld fourth step: what the engine's 64-bit comparisons found *)
Theorem withheld_step_exact_hash s pp G b0 i d : RepInv s pp G b0 ->
  let nb := board (take_action s (Move i d)) in
  In (Move i d) (valid_actions_no_rep s) -> ~ In (Move i d) (valid_actions s) ->
  step_of pp = 3 /\ trapped pp = false /\
  (z_from_piece_board nb (side s) 0 = z_from_piece_board b0 (side s) 0 \/
   (2 <= length (filter (fun x => (z_from_piece_board nb (negb (side s)) 0 =? hpos x)%N) G))%nat).
Proof.
  intros RI nb OffN NotV.
  pose proof (hi_play s pp (ri_hash _ _ _ _ RI)) as Inv. pose proof (inv_board s pp Inv) as W. pose proof (inv_phase s pp Inv) as Hph.
  pose proof (offered_move_pre s pp i d Inv OffN) as [Hi (t & o & k & Hd & Hc & Ht)].
  pose proof (take_move_WFb (board s) i d t W Hi Hd Ht) as Wn.
  assert (keep s pp (Move i d) = false) as K.
  { destruct (keep s pp (Move i d)) eqn:E; [|reflexivity]. exfalso. apply NotV. rewrite (valid_is_filter s pp Inv). apply filter_In. tauto. }
  unfold keep, rep_active, not_pl in K. apply orb_false_iff in K. destruct K as [K1 K2]. apply negb_false_iff in K1.
  apply andb_prop in K1. destruct K1 as [S3 T]. apply N.eqb_eq in S3. apply negb_true_iff in T.
  split; [exact S3|]. split; [exact T|].
  apply negb_false_iff in K2. unfold is_passing_like_action, current_step, unwrap_play_phase in K2. rewrite Hph in K2.
  rewrite (hi_hash s pp (ri_hash _ _ _ _ RI)) in K2. rewrite !z_move_piece_spec in K2 by assumption.
  rewrite (ri_init _ _ _ _ RI), (ri_hist _ _ _ _ RI) in K2.
  assert (nb = fst (pb_take_move (board s) i d)) as Enb by (unfold nb; cbn [take_action]; rewrite (move_piece_unfold s pp i d Hph); reflexivity).
  rewrite <- Enb in K2. apply orb_prop in K2. destruct K2 as [K2|K2].
  - left. now apply N.eqb_eq in K2.
  - right. unfold hash_history_contains_hash_twice in K2. apply Nat.leb_le in K2. now rewrite count_hash_map in K2.
Qed.

(* a withheld fourth step: the exact rule forbids it, unless a hash collision is involved *)
Theorem withheld_step_exact s pp G b0 i d : RepInv s pp G b0 ->
  let nb := board (take_action s (Move i d)) in
  NoCollisionAt s G b0 nb ->
  In (Move i d) (valid_actions_no_rep s) -> ~ In (Move i d) (valid_actions s) ->
  step_of pp = 3 /\ trapped pp = false /\
  (beq nb b0 \/ (2 <= length (filter (fun x => (z_from_piece_board nb (negb (side s)) 0 =? hpos x)%N) G))%nat).
Proof.
  intros RI nb [NC1 NC2] OffN NotV. destruct (withheld_step_exact_hash s pp G b0 i d RI OffN NotV) as (S3 & T & V).
  split; [exact S3|]. split; [exact T|]. destruct V as [V|V]; [left; now apply NC1|now right].
Qed.

(* ---- C06 as an equivalence on exact positions (no collision involved) ---- *)
(* the exact rule: the turn end is allowed iff the resulting board differs from the turn's starting board and the
   resulting position has occurred at most once among the turn-start positions since the last capture *)
Definition exact_allowed (G : list pos) (b0 nb : pbs) (sd : bool) : Prop :=
  ~ beq nb b0 /\ (length (filter (fun x => peqb x (nb, sd)) G) <= 1)%nat.

Lemma hash_count_le_exact s G b0 nb : NoCollisionAt s G b0 nb ->
  (length (filter (fun x => (z_from_piece_board nb (negb (side s)) 0 =? hpos x)%N) G) <=
   length (filter (fun x => peqb x (nb, negb (side s))) G))%nat.
Proof.
  intros [_ NC2]. induction G as [|x G IH]; [apply le_n|]. cbn [filter].
  assert (length (filter (fun x0 => (z_from_piece_board nb (negb (side s)) 0 =? hpos x0)%N) G) <=
          length (filter (fun x0 => peqb x0 (nb, negb (side s))) G))%nat as IH'
    by (apply IH; intros y Hy; apply NC2; now right).
  destruct (z_from_piece_board nb (negb (side s)) 0 =? hpos x) eqn:E.
  - apply N.eqb_eq in E. rewrite (peqb_true x (nb, negb (side s)) (NC2 x (or_introl eq_refl) (eq_sym E))). cbn [length]. lia.
  - destruct (peqb x (nb, negb (side s))); cbn [length]; lia.
Qed.

Theorem pass_offered_iff s pp G b0 : RepInv s pp G b0 -> NoCollisionAt s G b0 (board s) -> In Pass (valid_actions_no_rep s) ->
  (In Pass (valid_actions s) <-> exact_allowed G b0 (board s) (negb (side s))).
Proof.
  intros RI NC OffN. split.
  - intros Off. destruct (pass_changes_board s pp G b0 RI Off) as [A B]. split; [exact A|].
    apply B. intros x _ H. now apply peqb_peq.
  - intros [A B]. destruct (can_pass s true) eqn:CP.
    + now apply (can_pass_rep_iff s pp (hi_play s pp (ri_hash _ _ _ _ RI))).
    + exfalso. assert (~ In Pass (valid_actions s)) as NotV
        by (intros X; apply (can_pass_rep_iff s pp (hi_play s pp (ri_hash _ _ _ _ RI))) in X; congruence).
      destruct (withheld_pass_exact s pp G b0 RI NC OffN NotV) as [V|V]; [now apply A|].
      pose proof (hash_count_le_exact s G b0 (board s) NC). lia.
Qed.

Theorem fourth_step_offered_iff s pp G b0 i d : RepInv s pp G b0 ->
  let nb := board (take_action s (Move i d)) in
  NoCollisionAt s G b0 nb -> In (Move i d) (valid_actions_no_rep s) -> step_of pp = 3 -> trapped pp = false ->
  (In (Move i d) (valid_actions s) <-> exact_allowed G b0 nb (negb (side s))).
Proof.
  intros RI nb NC OffN S3 T. pose proof (hi_play s pp (ri_hash _ _ _ _ RI)) as Inv. split.
  - intros Off. destruct (fourth_step_changes_board s pp G b0 RI i d Off ltac:(lia) T) as [A B]. split; [exact A|].
    apply B. intros x _ H. now apply peqb_peq.
  - intros [A B]. destruct (keep s pp (Move i d)) eqn:K; [rewrite (valid_is_filter s pp Inv); apply filter_In; tauto|exfalso].
    assert (~ In (Move i d) (valid_actions s)) as NotV
      by (intros X; rewrite (valid_is_filter s pp Inv) in X; apply filter_In in X; destruct X; congruence).
    destruct (withheld_step_exact s pp G b0 i d RI NC OffN NotV) as (_ & _ & [V|V]); [now apply A|].
    pose proof (hash_count_le_exact s G b0 nb NC). fold nb in V. lia.
Qed.

(* after a capture earlier in the turn nothing is withheld at the fourth step (and rightly so: C05 holds regardless) *)
Theorem capture_turn_never_withheld s pp i d : PlayInv s pp -> trapped pp = true ->
  In (Move i d) (valid_actions_no_rep s) -> In (Move i d) (valid_actions s).
Proof.
  intros Inv T Off. rewrite (valid_is_filter s pp Inv). apply filter_In. split; [exact Off|].
  unfold keep, rep_active. rewrite T. cbn [negb]. now rewrite andb_false_r.
Qed.

(* ---- C06 over the WHOLE game: the exact rule evaluated on the complete list of turn-start positions (G ++ Old)
   gives the same verdict as on the positions since the last capture, so the equivalences above speak about the
   whole game although the engine forgets its history at captures ---- *)
Lemma exact_allowed_whole_game s pp G Old b0 nb : MatInv s pp G Old b0 -> (npc (cell nb) <= npc (cell (board s)))%nat ->
  (exact_allowed (G ++ Old) b0 nb (negb (side s)) <-> exact_allowed G b0 nb (negb (side s))).
Proof.
  intros MI LE. unfold exact_allowed.
  rewrite (forgetting_is_harmless s pp G Old b0 nb (fun x => peqb x (nb, negb (side s))) MI LE (fun x _ H => peqb_peq _ _ H)).
  reflexivity.
Qed.

Theorem pass_offered_iff_whole_game s G Old b0 : ReachH s G Old b0 -> NoCollisionAt s G b0 (board s) ->
  In Pass (valid_actions_no_rep s) ->
  (In Pass (valid_actions s) <-> exact_allowed (G ++ Old) b0 (board s) (negb (side s))).
Proof.
  intros R NC OffN. destruct (reachH_inv s G Old b0 R) as [pp MI].
  rewrite (exact_allowed_whole_game s pp G Old b0 (board s) MI (le_n _)).
  exact (pass_offered_iff s pp G b0 (mi_rep _ _ _ _ _ MI) NC OffN).
Qed.

Theorem fourth_step_offered_iff_whole_game s pp G Old b0 i d : ReachH s G Old b0 -> ph s = PlayPhase pp ->
  let nb := board (take_action s (Move i d)) in
  NoCollisionAt s G b0 nb -> In (Move i d) (valid_actions_no_rep s) -> step_of pp = 3 -> trapped pp = false ->
  (In (Move i d) (valid_actions s) <-> exact_allowed (G ++ Old) b0 nb (negb (side s))).
Proof.
  intros R P nb NC OffN S3 T. destruct (reachH_inv s G Old b0 R) as [q MI].
  pose proof (inv_phase s q (hi_play s q (ri_hash _ _ _ _ (mi_rep _ _ _ _ _ MI)))) as E. rewrite P in E. injection E as <-.
  pose proof (step_npc s pp i d (hi_play s pp (ri_hash _ _ _ _ (mi_rep _ _ _ _ _ MI))) OffN) as [LE _]. cbv zeta in LE.
  rewrite (exact_allowed_whole_game s pp G Old b0 nb MI LE).
  exact (fourth_step_offered_iff s pp G b0 i d (mi_rep _ _ _ _ _ MI) NC OffN S3 T).
Qed.
