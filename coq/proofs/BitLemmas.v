(* Pointwise (N.testbit) characterisations of the bitboard functions of model/Board.v, in terms of
   the square geometry of spec/Rules.v.  The masks come from the regenerated GenMasks.v: their
   square-level meaning is re-proved here on every run by a sweep over the 64 squares. *)
From Coq Require Import NArith ZArith List Bool Lia ZifyBool ZifyN.
From Arimaa Require Import Types U64 GenMasks GenEnums Board Cells Rules Fin XorFold Hash.
Import ListNotations.
Open Scope N_scope.
Ltac Zify.zify_post_hook ::= Z.div_mod_to_equations.

Definition wf64 (x : N) : Prop := x <= M64.

Lemma wf64_high x i : wf64 x -> 64 <= i -> N.testbit x i = false.
Proof.
  intros Hx Hi. destruct (N.eq_dec x 0) as [->|Hz]; [apply N.bits_0|].
  apply N.bits_above_log2. unfold wf64, M64 in Hx.
  assert (N.log2 x < 64); [|lia]. apply N.log2_lt_pow2; [lia|]. change (2^64) with 18446744073709551616. lia.
Qed.

Lemma wf64_of_bits x : (forall i, 64 <= i -> N.testbit x i = false) -> wf64 x.
Proof.
  intros H. unfold wf64. destruct (N.eq_dec x 0) as [->|Hz]; [unfold M64; lia|].
  assert (N.log2 x < 64) as Hl.
  { destruct (N.lt_ge_cases (N.log2 x) 64) as [|Hge]; [assumption|].
    specialize (H _ Hge). rewrite N.bit_log2 in H by exact Hz. discriminate. }
  assert (x < 2 ^ 64) by (apply N.log2_lt_pow2; lia).
  change (2^64) with 18446744073709551616 in *. unfold M64. lia.
Qed.

Lemma shl_spec x k i : N.testbit (shl x k) i = (i <? 64) && (k <=? i) && N.testbit x (i - k).
Proof.
  unfold shl. rewrite N.land_spec, M64_spec.
  destruct (N.leb_spec k i).
  - rewrite N.shiftl_spec_high' by lia. destruct (i <? 64), (N.testbit x (i-k)); reflexivity.
  - rewrite N.shiftl_spec_low by lia. destruct (i <? 64); reflexivity.
Qed.

Lemma shr_spec x k i : N.testbit (shr x k) i = N.testbit x (i + k).
Proof. unfold shr. apply N.shiftr_spec'. Qed.

Lemma land_wf64_l x y : wf64 x -> wf64 (N.land x y).
Proof. intros H. apply wf64_of_bits. intros i Hi. rewrite N.land_spec, (wf64_high x i H Hi). reflexivity. Qed.
Lemma land_wf64_r x y : wf64 y -> wf64 (N.land x y).
Proof. intros H. rewrite N.land_comm. now apply land_wf64_l. Qed.
Lemma lor_wf64 x y : wf64 x -> wf64 y -> wf64 (N.lor x y).
Proof. intros H1 H2. apply wf64_of_bits. intros i Hi. rewrite N.lor_spec, (wf64_high x i H1 Hi), (wf64_high y i H2 Hi). reflexivity. Qed.
Lemma bnot_wf64 x : wf64 (bnot x).
Proof. apply wf64_of_bits. intros i Hi. rewrite bnot_spec. destruct (N.ltb_spec i 64); [lia|reflexivity]. Qed.
Lemma shl_wf64 x k : wf64 (shl x k).
Proof. apply wf64_of_bits. intros i Hi. rewrite shl_spec. destruct (N.ltb_spec i 64); [lia|reflexivity]. Qed.
Lemma shr_wf64 x k : wf64 x -> wf64 (shr x k).
Proof. intros H. apply wf64_of_bits. intros i Hi. rewrite shr_spec. apply wf64_high; [exact H|lia]. Qed.

(* ---- masks: meaning on squares, by sweep ---- *)
Lemma mask_spec m (p : N -> bool) :
  forallb (fun i => Bool.eqb (N.testbit m i) (p i)) sq64 = true -> wf64 m ->
  forall i, N.testbit m i = (i <? 64) && p i.
Proof.
  intros H Hm i. destruct (N.ltb_spec i 64) as [Hi|Hi].
  - pose proof (forall_sq64 _ H i Hi) as E. apply Bool.eqb_prop in E. exact E.
  - apply wf64_high; assumption.
Qed.

Ltac mask_tac m p := apply (mask_spec m p); [vm_compute; reflexivity | unfold wf64, M64; vm_compute; discriminate].

Lemma TOP_spec i : N.testbit TOP_ROW_MASK i = (i <? 64) && (row_of i =? 0).
Proof. mask_tac TOP_ROW_MASK (fun i => row_of i =? 0). Qed.
Lemma BOTTOM_spec i : N.testbit BOTTOM_ROW_MASK i = (i <? 64) && (row_of i =? 7).
Proof. mask_tac BOTTOM_ROW_MASK (fun i => row_of i =? 7). Qed.
Lemma LEFTC_spec i : N.testbit LEFT_COLUMN_MASK i = (i <? 64) && (file_of i =? 0).
Proof. mask_tac LEFT_COLUMN_MASK (fun i => file_of i =? 0). Qed.
Lemma RIGHTC_spec i : N.testbit RIGHT_COLUMN_MASK i = (i <? 64) && (file_of i =? 7).
Proof. mask_tac RIGHT_COLUMN_MASK (fun i => file_of i =? 7). Qed.
Lemma TRAP_spec i : N.testbit TRAP_MASK i = (i <? 64) && is_trap i.
Proof. mask_tac TRAP_MASK is_trap. Qed.
(* goal ranks: Gold's objective is rank 8 (row 0), Silver's rank 1 (row 7) *)
Lemma P1_OBJECTIVE_spec i : N.testbit P1_OBJECTIVE_MASK i = (i <? 64) && (row_of i =? 0).
Proof. mask_tac P1_OBJECTIVE_MASK (fun i => row_of i =? 0). Qed.
Lemma P2_OBJECTIVE_spec i : N.testbit P2_OBJECTIVE_MASK i = (i <? 64) && (row_of i =? 7).
Proof. mask_tac P2_OBJECTIVE_MASK (fun i => row_of i =? 7). Qed.
(* home ranks: Gold ranks 2 and 1 (rows 6, 7), Silver ranks 8 and 7 (rows 0, 1) *)
Lemma P1_PLACEMENT_spec i : N.testbit P1_PLACEMENT_MASK i = (i <? 64) && (6 <=? row_of i).
Proof. mask_tac P1_PLACEMENT_MASK (fun i => 6 <=? row_of i). Qed.
Lemma P2_PLACEMENT_spec i : N.testbit P2_PLACEMENT_MASK i = (i <? 64) && (row_of i <=? 1).
Proof. mask_tac P2_PLACEMENT_MASK (fun i => row_of i <=? 1). Qed.

(* ---- the shift macros: the regenerated macro table must be the expected one ---- *)
Lemma shift_table :
  SHIFT_UP = (false, 8) /\ SHIFT_RIGHT = (true, 1) /\ SHIFT_DOWN = (true, 8) /\ SHIFT_LEFT = (false, 1) /\
  SHIFT_PIECES_UP_INNER = (false, 8) /\ SHIFT_PIECES_RIGHT_INNER = (true, 1) /\
  SHIFT_PIECES_DOWN_INNER = (true, 8) /\ SHIFT_PIECES_LEFT_INNER = (false, 1) /\
  SHIFT_PIECES_UP_MASK = TOP_ROW_MASK /\ SHIFT_PIECES_RIGHT_MASK = RIGHT_COLUMN_MASK /\
  SHIFT_PIECES_DOWN_MASK = BOTTOM_ROW_MASK /\ SHIFT_PIECES_LEFT_MASK = LEFT_COLUMN_MASK.
Proof. repeat split; reflexivity. Qed.

Lemma shift_up_eq x : shift_up x = shr x 8. Proof. reflexivity. Qed.
Lemma shift_down_eq x : shift_down x = shl x 8. Proof. reflexivity. Qed.
Lemma shift_left_eq x : shift_left x = shr x 1. Proof. reflexivity. Qed.
Lemma shift_right_eq x : shift_right x = shl x 1. Proof. reflexivity. Qed.
Lemma sp_up_eq x : shift_pieces_up x = shr (N.land x (bnot TOP_ROW_MASK)) 8. Proof. reflexivity. Qed.
Lemma sp_down_eq x : shift_pieces_down x = shl (N.land x (bnot BOTTOM_ROW_MASK)) 8. Proof. reflexivity. Qed.
Lemma sp_left_eq x : shift_pieces_left x = shr (N.land x (bnot LEFT_COLUMN_MASK)) 1. Proof. reflexivity. Qed.
Lemma sp_right_eq x : shift_pieces_right x = shl (N.land x (bnot RIGHT_COLUMN_MASK)) 1. Proof. reflexivity. Qed.

Lemma sp_up_spec x i : N.testbit (shift_pieces_up x) i = (i + 8 <? 64) && N.testbit x (i + 8).
Proof.
  rewrite sp_up_eq, shr_spec, N.land_spec, bnot_spec, TOP_spec. unfold row_of.
  destruct (N.testbit x (i+8)); lia.
Qed.
Lemma sp_down_spec x i : N.testbit (shift_pieces_down x) i = (i <? 64) && (8 <=? i) && N.testbit x (i - 8).
Proof.
  rewrite sp_down_eq, shl_spec, N.land_spec, bnot_spec, BOTTOM_spec. unfold row_of.
  destruct (N.testbit x (i-8)); lia.
Qed.
Lemma sp_right_spec x i : N.testbit (shift_pieces_right x) i = (i <? 64) && negb (i mod 8 =? 0) && N.testbit x (i - 1).
Proof.
  rewrite sp_right_eq, shl_spec, N.land_spec, bnot_spec, RIGHTC_spec. unfold file_of.
  destruct (N.testbit x (i-1)); lia.
Qed.
Lemma sp_left_spec x i : N.testbit (shift_pieces_left x) i = (i + 1 <? 64) && negb (i mod 8 =? 7) && N.testbit x (i + 1).
Proof.
  rewrite sp_left_eq, shr_spec, N.land_spec, bnot_spec, LEFTC_spec. unfold file_of.
  destruct (N.testbit x (i+1)); lia.
Qed.

(* the bit at i of "pieces shifted in direction d" is the bit of the square from which a step in
   direction d arrives at i *)
Definition opt_p (p : N -> bool) (o : option N) : bool := match o with Some j => p j | None => false end.
Definition from_sq (x : N) (o : option N) : bool := opt_p (N.testbit x) o.

Lemma sp_dir_spec x d i : i < 64 ->
  N.testbit (shift_pieces_in_direction x d) i = from_sq x (dst_of i (opp_dir d)).
Proof.
  intros Hi. destruct d; cbn [shift_pieces_in_direction opp_dir dst_of]; unfold row_of, file_of, from_sq, opt_p.
  - rewrite sp_up_spec. destruct (i / 8 =? 7) eqn:E; [lia|]. destruct (N.testbit x (i+8)); lia.
  - rewrite sp_right_spec. destruct (i mod 8 =? 0) eqn:E; [lia|]. destruct (N.testbit x (i-1)); lia.
  - rewrite sp_down_spec. destruct (i / 8 =? 0) eqn:E; [lia|]. destruct (N.testbit x (i-8)); lia.
  - rewrite sp_left_spec. destruct (i mod 8 =? 7) eqn:E; [lia|]. destruct (N.testbit x (i+1)); lia.
Qed.

Lemma sp_opp_dir_spec x d i : i < 64 ->
  N.testbit (shift_pieces_in_opp_direction x d) i = from_sq x (dst_of i d).
Proof.
  intros Hi. replace (shift_pieces_in_opp_direction x d) with (shift_pieces_in_direction x (opp_dir d)) by (destruct d; reflexivity).
  rewrite sp_dir_spec by exact Hi. destruct d; reflexivity.
Qed.

Lemma sp_dir_wf64 x d : wf64 x -> wf64 (shift_pieces_in_direction x d).
Proof.
  intros H. destruct d; cbn [shift_pieces_in_direction];
    rewrite ?sp_up_eq, ?sp_down_eq, ?sp_left_eq, ?sp_right_eq; try apply shl_wf64; apply shr_wf64, land_wf64_l, H.
Qed.
Lemma sp_opp_dir_wf64 x d : wf64 x -> wf64 (shift_pieces_in_opp_direction x d).
Proof.
  intros H. replace (shift_pieces_in_opp_direction x d) with (shift_pieces_in_direction x (opp_dir d)) by (destruct d; reflexivity).
  now apply sp_dir_wf64.
Qed.

(* ---- geometry facts (finite sweeps) ---- *)
Lemma dst_lt64 i d j : i < 64 -> dst_of i d = Some j -> j < 64.
Proof.
  intros Hi. destruct d; cbn [dst_of]; unfold row_of, file_of;
    match goal with |- context [if ?c then _ else _] => destruct c eqn:E end; try discriminate;
    intros [= <-]; lia.
Qed.

Lemma dst_opp i d j : i < 64 -> dst_of i d = Some j -> dst_of j (opp_dir d) = Some i.
Proof.
  intros Hi. destruct d; cbn [dst_of opp_dir]; unfold row_of, file_of;
    match goal with |- context [if ?c then _ else _] => destruct c eqn:E end; try discriminate;
    intros [= <-];
    match goal with |- context [if ?c then _ else _] => destruct c eqn:E2 end; try lia; f_equal; lia.
Qed.

Lemma dst_neq i d j : dst_of i d = Some j -> i < 64 -> j <> i.
Proof.
  intros H Hi. destruct d; cbn [dst_of] in H; unfold row_of, file_of in H;
    match type of H with context [if ?c then _ else _] => destruct c eqn:E end; try discriminate;
    injection H as <-; lia.
Qed.

Lemma In_nbrs i j : In j (nbrs i) <-> exists d, dst_of i d = Some j.
Proof.
  unfold nbrs. rewrite in_flat_map. split.
  - intros [d [_ H]]. exists d. destruct (dst_of i d); [destruct H as [->|[]]; reflexivity|contradiction].
  - intros [d H]. exists d. split; [unfold dirs4; destruct d; cbn; tauto|]. rewrite H. now left.
Qed.

Lemma existsb_nbrs (p : N -> bool) i :
  existsb p (nbrs i) = opt_p p (dst_of i Up) || opt_p p (dst_of i Right) || opt_p p (dst_of i Down) || opt_p p (dst_of i Left).
Proof.
  unfold nbrs, dirs4. cbn [flat_map]. rewrite !existsb_app.
  destruct (dst_of i Up), (dst_of i Right), (dst_of i Down), (dst_of i Left); cbn; rewrite ?orb_false_r, ?orb_assoc; reflexivity.
Qed.
