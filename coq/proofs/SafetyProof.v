(* C19: on reachable states every guard of model/Safety.v holds. *)
From Coq Require Import NArith ZArith List Bool Lia ZifyBool ZifyN.
From Arimaa Require Import Types U64 GenMasks GenEnums GenZobrist Board Zobrist Engine Safety Notation Display Trace Cells Rules Monitors
  Fin XorFold Hash HashSens BitLemmas StepLemmas GenLemmas Refine Invariant TurnLemmas HashInv Live Setup Reach.
Import ListNotations.
Open Scope N_scope.
Strategy opaque [bits_of].

Lemma stronger_not_elephant k k' : stronger k' k = true -> k <> Elephant.
Proof. destruct k, k'; cbn; congruence. Qed.

(* the status produced by an offered step is one the hash functions accept *)
Lemma next_status_safe s pp i d : PlayInv s pp -> In (Move i d) (valid_actions_no_rep s) ->
  status_safe (next_push_pull_state s i d) = true.
Proof.
  intros Inv Off. pose proof (offered_move_pre s pp i d Inv Off) as [Hi (t & o & k & Hd & Hc & Ht)].
  pose proof (next_status_spec s pp i d t o k Inv Hi Hd Hc) as NS.
  pose proof Inv as [Hph W _ _ Hst].
  apply (T1_move s pp Hph W (status_inv_ok _ _ _ Hst)) in Off. destruct Off as [_ Off].
  unfold spec_next_status in NS. rewrite Hc in NS.
  destruct (next_push_pull_state s i d) as [|sq k'|sq k'] eqn:E; cbn [status_safe sstatus_of] in *; [reflexivity| |].
  - (* possible pull: a friendly non-rabbit piece *)
    destruct (negb (Bool.eqb o (side s))); [destruct (pull_finish_ok _ _ _ _ _); discriminate|].
    destruct (sstatus_of (pstate pp)); try discriminate; destruct k; try discriminate; injection NS as -> ->;
      (destruct (N.ltb_spec i 64); [reflexivity|lia]).
  - (* push pending: the displaced enemy piece is weaker than some pusher *)
    destruct (negb (Bool.eqb o (side s))) eqn:En.
    2:{ destruct (sstatus_of (pstate pp)); try discriminate; destruct k; discriminate. }
    destruct (pull_finish_ok (cell (board s)) (side s) (sstatus_of (pstate pp)) i d) eqn:PF; [discriminate|].
    injection NS as -> ->. destruct (N.ltb_spec i 64); [|lia]. cbn [andb].
    assert (push_start_ok (cell (board s)) (side s) i d = true) as PS.
    { unfold spec_move_ok in Off. destruct (sstatus_of (pstate pp)) eqn:Es.
      - apply orb_prop in Off. destruct Off as [Off|Off]; [apply orb_prop in Off; destruct Off as [Off|Off]|apply andb_prop in Off; tauto].
        + unfold own_step_ok in Off. rewrite Hc, Hd in Off. apply negb_true_iff in En. rewrite En in Off. discriminate.
        + congruence.
      - apply orb_prop in Off. destruct Off as [Off|Off]; [apply orb_prop in Off; destruct Off as [Off|Off]|apply andb_prop in Off; tauto].
        + unfold own_step_ok in Off. rewrite Hc, Hd in Off. apply negb_true_iff in En. rewrite En in Off. discriminate.
        + congruence.
      - unfold push_finish_ok in Off. rewrite Hc, Hd in Off. apply negb_true_iff in En. rewrite En in Off. discriminate. }
    unfold push_start_ok in PS. rewrite Hc, Hd in PS. apply andb_prop in PS. destruct PS as [_ PS].
    apply existsb_exists in PS. destruct PS as [n [_ PS]]. destruct (cell (board s) n) as [[o' k'']|]; [|discriminate].
    apply andb_prop in PS. destruct PS as [PS _]. apply andb_prop in PS. destruct PS as [_ PS].
    apply stronger_not_elephant in PS. destruct k; try reflexivity. congruence.
Qed.

Record SafeInv (s : state) (pp : play) : Prop := {
  sf_play : PlayInv s pp;
  sf_status : status_safe (pstate pp) = true;
}.

Theorem safe_preserved s pp a : SafeInv s pp -> In a (valid_actions_no_rep s) -> exists pp', SafeInv (take_action s a) pp'.
Proof.
  intros [Inv St] Off. destruct (action_preserves s pp a Inv Off) as [pp' Inv']. exists pp'. split; [exact Inv'|].
  pose proof (inv_phase s pp Inv) as Hph. pose proof (inv_phase _ pp' Inv') as Hph'.
  destruct a as [k|i d|].
  - exfalso. destruct Inv as [H1 H2 _ _ H5]. now apply (T1_no_place s pp H1 H2 (status_inv_ok _ _ _ H5) k).
  - cbn [take_action] in Hph'. rewrite (move_piece_unfold s pp i d Hph) in Hph'. cbv zeta in Hph'. cbn [ph] in Hph'.
    injection Hph' as <-. destruct (3 <=? step_of pp); [reflexivity|]. cbn [pstate]. now apply (next_status_safe s pp).
  - cbn [take_action] in Hph'. unfold pass, unwrap_play_phase in Hph'. rewrite Hph in Hph'. cbn [ph] in Hph'. injection Hph' as <-. reflexivity.
Qed.

(* placement never shifts by 64: a free home square exists throughout setup *)
Definition shape_safe (n : N) : bool := placement_safe (mkpbs (shape_p1 n) (shape_all n) 0 0 0 0 0 0).
Lemma shape_safe_sweep : forallb shape_safe idx32 = true.
Proof. vm_compute. reflexivity. Qed.

Lemma setup_apply_safe s n k : SetupInv s n -> apply_safe s (Place k) = true.
Proof.
  intros Inv. unfold apply_safe. rewrite (si_phase s n Inv).
  pose proof shape_safe_sweep as S. rewrite forallb_forall in S. specialize (S n (In_idx32 n (si_n s n Inv))).
  unfold shape_safe, placement_safe in *. cbn [p1 allp] in S. now rewrite (si_all s n Inv), (si_p1 s n Inv).
Qed.

Theorem reach_safe s : Reach s -> (exists n, SetupInv s n) \/ (exists pp, SafeInv s pp).
Proof.
  induction 1 as [|s Hs|s a Hr IH Ha].
  - left. exists 0. exact setup_initial.
  - right. destruct (start_inv s Hs) as [pp [H E]]. exists pp. split; [exact (hi_play s pp H)|].
    destruct Hs as (h & P & _). pose proof (inv_phase s pp (hi_play s pp H)) as P'. rewrite P in P'. injection P' as <-. reflexivity.
  - destruct IH as [[n Inv]|[pp Inv]].
    + unfold valid_actions_no_rep, valid_actions_ in Ha. rewrite (si_phase s n Inv) in Ha.
      destruct (valid_placement_only s a Ha) as [k ->]. cbn [take_action].
      destruct (N.eq_dec n 31) as [E|E].
      * right. destruct (place_last s n k Inv E) as (h & P & _ & _ & _ & HI). exists (play_initial h [h]).
        split; [exact (hi_play _ _ HI)|reflexivity].
      * left. exists (n + 1). now apply place_next.
    + right. now apply (safe_preserved s pp a).
Qed.

(* C19: every query and every offered action is safe on a reachable state *)
Theorem reach_queries_safe s : Reach s -> queries_safe s = true.
Proof.
  intros R. destruct (reach_safe s R) as [[n Inv]|[pp [Inv St]]]; unfold queries_safe.
  - now rewrite (si_phase s n Inv).
  - rewrite (inv_phase s pp Inv), St. pose proof (inv_step s pp Inv). destruct (N.leb_spec (step_of pp) 3); [reflexivity|lia].
Qed.

Theorem reach_apply_safe s a : Reach s -> In a (valid_actions_no_rep s) -> move_no s + 1 < P64 -> apply_safe s a = true.
Proof.
  intros R Off Hm. destruct (reach_safe s R) as [[n Inv]|[pp [Inv St]]].
  - unfold valid_actions_no_rep, valid_actions_ in Off. rewrite (si_phase s n Inv) in Off.
    destruct (valid_placement_only s a Off) as [k ->]. now apply (setup_apply_safe s n).
  - pose proof (inv_step s pp Inv) as H3. unfold apply_safe. rewrite (inv_phase s pp Inv).
    destruct a as [k|i d|].
    + exfalso. destruct Inv as [H1 H2 _ _ H5]. now apply (T1_no_place s pp H1 H2 (status_inv_ok _ _ _ H5) k).
    + pose proof (offered_move_pre s pp i d Inv Off) as [Hi _]. rewrite St.
      destruct (N.ltb_spec i 64); [|lia]. destruct (N.leb_spec (step_of pp) 3); [|lia].
      destruct (N.ltb_spec (move_no s + 1) P64); [|lia]. cbn. now rewrite !orb_true_r.
    + destruct (N.leb_spec (step_of pp) 3); [|lia]. destruct (N.ltb_spec (move_no s + 1) P64); [|lia]. cbn. now rewrite orb_true_r.
Qed.

Theorem reach_board_for_step_safe s pp i : Reach s -> ph s = PlayPhase pp -> i <= step_of pp -> board_for_step_safe s i = true.
Proof. intros _ P H. unfold board_for_step_safe. rewrite P. now apply N.leb_le. Qed.

(* the guards are not vacuous: they fail exactly where the crate panics on states outside Reach *)
Example unsafe_status : status_safe (MustCompletePush 3 Elephant) = false /\ status_safe (PossiblePull 3 Rabbit) = false /\
  status_safe (PossiblePull 64 Cat) = false.
Proof. repeat split. Qed.
Example overflow_needed : apply_safe (mkstate false 18446744073709551615 (PlayPhase (mkplay [empty_board] PPNone 0 [] false)) empty_board 0) Pass = false.
Proof. reflexivity. Qed.
