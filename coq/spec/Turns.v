(* The rule book's move-level wording of an Arimaa turn, and the step automaton as an acceptor of step
   sequences.  Written from the official rules, not from the engine:
     - a turn consists of moves using one to four steps in total;
     - a move is a single step of an unfrozen friendly piece onto an empty adjacent square (rabbits not backward),
       a push (an enemy piece is moved to an empty adjacent square and a strictly stronger friendly piece that was
       adjacent to it and unfrozen BEFORE the push takes its place), or a pull (a friendly piece makes a single step
       and a strictly weaker enemy piece that was adjacent to it BEFORE the pull takes its place);
     - after every step pieces standing on a trap without a friendly neighbour are removed. *)
From Coq Require Import NArith List Bool.
From Arimaa Require Import Types U64 Rules.
Import ListNotations.
Open Scope N_scope.

Definition sstep := (N * dir)%type.

Inductive mv :=
| MSingle (s : N) (d : dir)
| MPush (v : N) (dv : dir) (p : N) (dp : dir)      (* victim step first, then the pusher *)
| MPull (p : N) (dp : dir) (v : N) (dv : dir).     (* puller step first, then the victim *)

Definition steps_of (m : mv) : list sstep :=
  match m with
  | MSingle s d => [(s, d)]
  | MPush v dv p dp => [(v, dv); (p, dp)]
  | MPull p dp v dv => [(p, dp); (v, dv)]
  end.

(* the board after one step (no-op when the step leaves the board) *)
Definition step_board (c : cellf) (x : sstep) : cellf :=
  match dst_of (fst x) (snd x) with Some t => after_captures (moved c (fst x) t) | None => c end.

Definition run_board (c : cellf) (l : list sstep) : cellf := fold_left step_board l c.

(* legality of one move on the board before it; g = the player on move *)
Definition mv_ok (c : cellf) (g : bool) (m : mv) : bool :=
  match m with
  | MSingle s d => own_step_ok c g s d
  | MPush v dv p dp =>
    match c v, dst_of v dv, c p, dst_of p dp with
    | Some (ov, kv), Some t, Some (op, kp), Some t' =>
      negb (Bool.eqb ov g) && negb (occupied c t) && Bool.eqb op g && stronger kp kv && (t' =? v) && negb (frozen c p)
    | _, _, _, _ => false
    end
  | MPull p dp v dv =>
    own_step_ok c g p dp &&
    match c p, c v, dst_of v dv with
    | Some (_, kp), Some (ov, kv), Some t' => negb (Bool.eqb ov g) && stronger kp kv && (t' =? p)
    | _, _, _ => false
    end
  end.

(* a sequence of moves, each legal on the board the previous ones produced *)
Fixpoint mvs_ok (c : cellf) (g : bool) (ms : list mv) : bool :=
  match ms with
  | [] => true
  | m :: r => mv_ok c g m && mvs_ok (run_board c (steps_of m)) g r
  end.

Definition flatten (ms : list mv) : list sstep := flat_map steps_of ms.

Definition legal_turn (c : cellf) (g : bool) (ms : list mv) : Prop :=
  mvs_ok c g ms = true /\ (1 <= length (flatten ms) <= 4)%nat.

(* ---- the step automaton as an acceptor ---- *)
Fixpoint accepts (c : cellf) (g : bool) (stp : N) (st : sstatus) (l : list sstep) : bool :=
  match l with
  | [] => true
  | x :: r =>
    (stp <? 4) && spec_move_ok c g stp st (fst x) (snd x) &&
    accepts (step_board c x) g (stp + 1) (spec_next_status c g st (fst x) (snd x)) r
  end.

(* the status after a sequence of steps *)
Fixpoint run_status (c : cellf) (g : bool) (st : sstatus) (l : list sstep) : sstatus :=
  match l with
  | [] => st
  | x :: r => run_status (step_board c x) g (spec_next_status c g st (fst x) (snd x)) r
  end.

Definition is_prefix {A} (l l' : list A) : Prop := exists r, l' = l ++ r.
