(* Square-level rules of Arimaa, independent of bit tricks and of the engine's masks.
   Squares are 0..63, index = file + 8 * (8 - rank): 0 = a8, 7 = h8, 56 = a1, 63 = h1.
   A position is a function from squares to contents (owner_is_gold, kind). *)
From Coq Require Import NArith List Bool.
From Arimaa Require Import Types U64.
Import ListNotations.
Open Scope N_scope.

Definition content := option (bool * piece).
Definition cellf := N -> content.

(* geometry: written from the coordinates, not from the engine's masks *)
Definition file_of (i : N) : N := i mod 8.
Definition row_of (i : N) : N := i / 8.            (* 0 = rank 8 ... 7 = rank 1 *)

Definition dst_of (i : N) (d : dir) : option N :=
  match d with
  | Up => if row_of i =? 0 then None else Some (i - 8)
  | Down => if row_of i =? 7 then None else Some (i + 8)
  | Left => if file_of i =? 0 then None else Some (i - 1)
  | Right => if file_of i =? 7 then None else Some (i + 1)
  end.

Definition dirs4 : list dir := [Up; Right; Down; Left].
Definition opp_dir (d : dir) : dir := match d with Up => Down | Down => Up | Left => Right | Right => Left end.

Definition nbrs (i : N) : list N :=
  flat_map (fun d => match dst_of i d with Some j => [j] | None => [] end) dirs4.

(* c3, f3, c6, f6 *)
Definition is_trap (i : N) : bool :=
  ((file_of i =? 2) || (file_of i =? 5)) && ((row_of i =? 2) || (row_of i =? 5)).

(* strength order of the rules: rabbit < cat < dog < horse < camel < elephant *)
Definition strength (k : piece) : N :=
  match k with Rabbit => 1 | Cat => 2 | Dog => 3 | Horse => 4 | Camel => 5 | Elephant => 6 end.
Definition stronger (a b : piece) : bool := strength b <? strength a.

Definition owner_at (c : cellf) (i : N) : option bool := option_map fst (c i).
Definition occupied (c : cellf) (i : N) : bool := match c i with Some _ => true | None => false end.
Definition friend_at (c : cellf) (o : bool) (i : N) : bool :=
  match c i with Some (o', _) => Bool.eqb o o' | None => false end.

Definition has_friend_nbr (c : cellf) (o : bool) (i : N) : bool := existsb (friend_at c o) (nbrs i).
Definition has_stronger_enemy_nbr (c : cellf) (o : bool) (k : piece) (i : N) : bool :=
  existsb (fun j => match c j with Some (o', k') => negb (Bool.eqb o o') && stronger k' k | None => false end) (nbrs i).

(* a piece is frozen when a stronger enemy piece is adjacent and no friendly piece is *)
Definition frozen (c : cellf) (i : N) : bool :=
  match c i with
  | Some (o, k) => has_stronger_enemy_nbr c o k i && negb (has_friend_nbr c o i)
  | None => false
  end.

(* moving the content of src to dst, nothing else changes *)
Definition moved (c : cellf) (src dst : N) : cellf :=
  fun i => if i =? dst then c src else if i =? src then None else c i.

(* a piece on a trap with no orthogonally adjacent friendly piece *)
Definition unsupported_on_trap (c : cellf) (i : N) : bool :=
  is_trap i && match c i with Some (o, _) => negb (has_friend_nbr c o i) | None => false end.

Definition after_captures (c : cellf) : cellf :=
  fun i => if unsupported_on_trap c i then None else c i.

(* the board after stepping the piece on src in direction d (defined when the target is on the board) *)
Definition spec_step (c : cellf) (src : N) (d : dir) : option cellf :=
  match dst_of src d with
  | Some dst => Some (after_captures (moved c src dst))
  | None => None
  end.

(* backward for a rabbit: gold rabbits may not step towards rank 1 (Down), silver not towards rank 8 (Up) *)
Definition backward (o : bool) (d : dir) : bool :=
  match d with Down => o | Up => negb o | _ => false end.

(* step-level automaton status, read from the previous step of the turn *)
Inductive sstatus := SNone | SPull (sq : N) (k : piece) | SPush (sq : N) (k : piece).

(* a friendly piece steps by itself *)
Definition own_step_ok (c : cellf) (mover : bool) (src : N) (d : dir) : bool :=
  match c src, dst_of src d with
  | Some (o, k), Some dst =>
    Bool.eqb o mover && negb (occupied c dst) && negb (frozen c src) &&
    negb (match k with Rabbit => backward o d | _ => false end)
  | _, _ => false
  end.

(* an enemy piece on src is displaced to an empty neighbour as the first half of a push:
   some unfrozen stronger friendly piece stands next to it *)
Definition push_start_ok (c : cellf) (mover : bool) (src : N) (d : dir) : bool :=
  match c src, dst_of src d with
  | Some (o, k), Some dst =>
    negb (Bool.eqb o mover) && negb (occupied c dst) &&
    existsb (fun j => match c j with
                      | Some (o', k') => Bool.eqb o' mover && stronger k' k && negb (frozen c j)
                      | None => false end) (nbrs src)
  | _, _ => false
  end.

(* an enemy piece on src steps into the square just vacated by a stronger friendly piece *)
Definition pull_finish_ok (c : cellf) (mover : bool) (st : sstatus) (src : N) (d : dir) : bool :=
  match st, c src, dst_of src d with
  | SPull t k, Some (o, k'), Some dst => negb (Bool.eqb o mover) && (dst =? t) && stronger k k'
  | _, _, _ => false
  end.

(* completion of a pending push: an unfrozen stronger friendly piece steps into the vacated square *)
Definition push_finish_ok (c : cellf) (mover : bool) (t : N) (k : piece) (src : N) (d : dir) : bool :=
  match c src, dst_of src d with
  | Some (o, k'), Some dst => Bool.eqb o mover && (dst =? t) && stronger k' k && negb (frozen c src)
  | _, _ => false
  end.

(* the steps the automaton accepts at step index `step` (0..3) with status `st` *)
Definition spec_move_ok (c : cellf) (mover : bool) (step : N) (st : sstatus) (src : N) (d : dir) : bool :=
  match st with
  | SPush t k => push_finish_ok c mover t k src d
  | _ => own_step_ok c mover src d
         || pull_finish_ok c mover st src d
         || ((step <? 3) && push_start_ok c mover src d)
  end.

Definition spec_pass_ok (step : N) (st : sstatus) : bool :=
  (1 <=? step) && match st with SPush _ _ => false | _ => true end.

(* the status after an accepted step *)
Definition spec_next_status (c : cellf) (mover : bool) (st : sstatus) (src : N) (d : dir) : sstatus :=
  match c src with
  | Some (o, k) =>
    if negb (Bool.eqb o mover) then
      if pull_finish_ok c mover st src d then SNone else SPush src k
    else
      match st with
      | SPush _ _ => SNone
      | _ => match k with Rabbit => SNone | _ => SPull src k end
      end
  | None => SNone
  end.

(* ---- results (C04), written on squares: goal ranks are rank 8 (row 0) for gold, rank 1 (row 7) for silver ---- *)
Definition exists_sq (p : N -> bool) : bool := existsb p sq64.
Definition rabbit_on_row (c : cellf) (o : bool) (r : N) : bool :=
  exists_sq (fun i => (row_of i =? r) && match c i with Some (o', Rabbit) => Bool.eqb o o' | _ => false end).
Definition has_rabbit (c : cellf) (o : bool) : bool :=
  exists_sq (fun i => match c i with Some (o', Rabbit) => Bool.eqb o o' | _ => false end).
Definition goal_reached (c : cellf) (o : bool) : bool := rabbit_on_row c o (if o then 0 else 7).

Inductive result := RGold | RSilver.
Definition win_for (o : bool) : result := if o then RGold else RSilver.

(* `mover` is the player to move at the start of the turn; `can_move` says whether any action is offered *)
Definition spec_result (c : cellf) (mover : bool) (can_move : bool) : option result :=
  let last := negb mover in
  if goal_reached c last then Some (win_for last)
  else if goal_reached c mover then Some (win_for mover)
  else if negb (has_rabbit c mover) then Some (win_for last)
  else if negb (has_rabbit c last) then Some (win_for mover)
  else if negb can_move then Some (win_for last)
  else None.
