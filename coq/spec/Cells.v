(* The square-level view of a board: cell b i = Some (owner_is_gold, kind) | None, and
   well-formedness of the eight bitboards. *)
From Coq Require Import NArith List Bool Lia.
From Arimaa Require Import Types U64 GenMasks GenEnums Board.
Import ListNotations.
Open Scope N_scope.

Definition kind_at (b : pbs) (i : N) : piece :=
  if N.testbit (rb b) i then Rabbit
  else if N.testbit (el b) i then Elephant
  else if N.testbit (ca b) i then Camel
  else if N.testbit (ho b) i then Horse
  else if N.testbit (dg b) i then Dog
  else Cat.

Definition cell (b : pbs) (i : N) : option (bool * piece) :=
  if N.testbit (allp b) i then Some (N.testbit (p1 b) i, kind_at b i) else None.

Definition count_true (l : list bool) : nat := length (filter (fun x => x) l).

(* bit i is consistent across the eight words: all = union of the six kinds, kinds pairwise
   disjoint, gold pieces are pieces *)
Definition wf_at (b : pbs) (i : N) : bool :=
  let e := N.testbit (el b) i in let m := N.testbit (ca b) i in let h := N.testbit (ho b) i in
  let d := N.testbit (dg b) i in let c := N.testbit (ct b) i in let r := N.testbit (rb b) i in
  let a := N.testbit (allp b) i in let p := N.testbit (p1 b) i in
  Bool.eqb a (e || m || h || d || c || r) &&
  Nat.leb (count_true [e; m; h; d; c; r]) 1 &&
  implb p a.

Definition words (b : pbs) : list N := [p1 b; allp b; el b; ca b; ho b; dg b; ct b; rb b].

Definition WFb (b : pbs) : Prop :=
  (forall w, In w (words b) -> w <= M64) /\ (forall i, wf_at b i = true).

(* executable form (used by the monitors): bits >= 64 are clear as soon as the words are <= M64 *)
Definition wfb_exec (b : pbs) : bool :=
  forallb (fun w => w <=? M64) (words b) && forallb (wf_at b) sq64.

Definition cell_eqb (x y : option (bool * piece)) : bool :=
  match x, y with
  | None, None => true
  | Some (o, k), Some (o', k') => Bool.eqb o o' && piece_eqb k k'
  | _, _ => false
  end.
