"""Panic-site inventory (C19).  model/Safety.v carries one boolean guard per place where the crate can panic
(explicit panic!/expect/unwrap, slice or table indexing, shifts, `+`/`-` on unsigned integers); that list was
written by hand from the source.  This audit ties it to the source that exists now: it counts, per file of the
non-test source, the constructs that can panic and compares the counts with the inventory pinned when the
guards were written (tools/panic_sites.json, refreshed by `./check lock`).  A file that has MORE sites of some kind
than the pinned inventory contains a panic site no guard was written for: C19 is then no longer shown (reported
as no-failing-input-found, naming file and construct) unless the catch_unwind runs have a concrete input anyway.
Fewer sites never raise anything.  Syntactic, like tools/purity.py."""
import glob, json, os, re, sys
sys.path.insert(0, os.path.dirname(os.path.abspath(__file__)))
from purity import strip_tests

KINDS = [
    ("unwrap", re.compile(r"\.unwrap\(\)")),
    ("expect", re.compile(r"\.expect\(")),
    ("panic_macro", re.compile(r"\b(?:panic|unreachable|unimplemented|todo|assert|assert_eq|assert_ne)!")),
    ("index", re.compile(r"[A-Za-z0-9_\)\]]\[(?![^\]]*;)[^\]\[]*\]")),           # a[i], f(x)[i], a[i][j]; not [T; n]
    ("shift", re.compile(r"<<|>>(?!=)")),
    ("add_sub", re.compile(r"[A-Za-z0-9_\)]\s(?:\+|-)\s[A-Za-z0-9_\(]|\+=|-=")),
    ("div_rem", re.compile(r"[A-Za-z0-9_\)]\s(?:/|%)\s[A-Za-z0-9_\(]")),
    ("from_utf8_slice", re.compile(r"\[\s*[^\]]*\.\.[^\]]*\]")),                  # s[..2], s[a..b]: char-boundary panics
    ("narrowing_as", re.compile(r"\bas\s+(?:u8|u16|u32|i8|i16|i32)\b")),
]


def inventory(repo):
    inv = {}
    for f in sorted(glob.glob(os.path.join(repo, "src", "**", "*.rs"), recursive=True)):
        rel = os.path.relpath(f, repo)
        if rel.endswith("_tests.rs") or "/tests/" in rel:
            continue
        src = strip_tests(open(f, encoding="utf-8", errors="replace").read())
        c = {}
        for line in src.splitlines():
            code = line.split("//")[0]
            if code.lstrip().startswith("#["):
                continue
            for k, rx in KINDS:
                n = len(rx.findall(code))
                if n:
                    c[k] = c.get(k, 0) + n
        inv[rel] = c
    return inv


def grown(pinned, now):
    """sites present now beyond the pinned inventory"""
    out = []
    for f, c in sorted(now.items()):
        p = pinned.get(f)
        for k, n in sorted(c.items()):
            have = (p or {}).get(k, 0)
            if n > have:
                out.append({"file": f, "construct": k, "pinned": have, "now": n})
    return out


def pinned_path(verif):
    return os.path.join(verif, "tools", "panic_sites.json")


def audit(repo, verif):
    now = inventory(repo)
    try:
        pinned = json.load(open(pinned_path(verif)))
    except Exception:
        return {"error": "tools/panic_sites.json missing", "grown": [{"file": "*", "construct": "inventory missing", "pinned": 0, "now": 0}], "sites_now": 0}
    return {"grown": grown(pinned, now), "sites_now": sum(sum(c.values()) for c in now.values()),
            "sites_pinned": sum(sum(c.values()) for c in pinned.values())}


if __name__ == "__main__":
    repo = sys.argv[1] if len(sys.argv) > 1 else "/repo"
    if len(sys.argv) > 2 and sys.argv[2] == "pin":
        json.dump(inventory(repo), open(pinned_path("/verif"), "w"), indent=1, sort_keys=True)
    print(json.dumps(audit(repo, "/verif"), indent=1))
    print(json.dumps(inventory(repo), indent=1))
