"""Hidden-state audit.  The Coq model describes every function of the crate as a pure function of its arguments,
and the correspondence check compares values call by call.  Code that keeps state between calls (statics, thread
locals, lazily initialised tables, caches behind interior mutability) can make a result depend on what was called
before - a dependence no finite differential run can exclude (a lossy cache keyed by a hash fails with probability
2^-32 per lookup).  When such a construct appears in a source file a property is anchored in, the tie of that
property to the code is no longer shown, and the check says so (no-failing-input-found) naming the construct."""
import glob, json, os, re

HIDDEN = re.compile(
    r"thread_local!|lazy_static!|\bstatic\s+(?:mut\s+)?[A-Z_][A-Z0-9_]*\s*:|\bOnceCell\b|\bOnceLock\b|\bonce_cell\b|\bLazy\s*<|"
    r"\bLazyLock\b|\bRefCell\b|\bCell\s*<|\bUnsafeCell\b|\bAtomic[A-Z][A-Za-z0-9]*\b|\bMutex\b|\bRwLock\b")


def strip_tests(src):
    """drop `#[cfg(test)] mod ... { ... }` blocks (brace matching) and line comments"""
    out = []
    i = 0
    while True:
        m = re.search(r"#\[cfg\(test\)\]\s*mod\s+\w+\s*\{", src[i:])
        if not m:
            out.append(src[i:])
            break
        out.append(src[i:i + m.start()])
        j = i + m.end()
        depth = 1
        while j < len(src) and depth:
            if src[j] == "{":
                depth += 1
            elif src[j] == "}":
                depth -= 1
            j += 1
        # keep line numbering
        out.append("\n" * src[i + m.start():j].count("\n"))
        i = j
    return "".join(out)


def audit(repo):
    hits = []
    for f in sorted(glob.glob(os.path.join(repo, "src", "*.rs"))):
        base = os.path.basename(f)
        if base.endswith("_tests.rs"):
            continue
        src = strip_tests(open(f, encoding="utf-8", errors="replace").read())
        for n, line in enumerate(src.splitlines(), 1):
            code = line.split("//")[0]
            m = HIDDEN.search(code)
            if m:
                hits.append({"file": "src/" + base, "line": n, "construct": m.group(0).strip(), "text": line.strip()[:160]})
    return hits


def anchored_files(properties_jsonl):
    res = {}
    for l in open(properties_jsonl):
        l = l.strip()
        if not l:
            continue
        p = json.loads(l)
        res[p["id"]] = set(p.get("anchors", {}).get("files", []))
    return res


if __name__ == "__main__":
    import sys
    print(json.dumps(audit(sys.argv[1] if len(sys.argv) > 1 else "/repo"), indent=1))
