#!/bin/bash
# regression over the archived seeded defects: apply each patch to /repo, run the check named in its meta.json, revert.
# usage: tools/reseed.sh [tag...]   (default: all)
cd /verif
tags="$@"; [ -z "$tags" ] && tags=$(ls seeded | grep -v harmless)
for t in $tags; do
  chk=$(python3 -c "import json;print(json.load(open('seeded/$t/meta.json'))['how_to_rerun'].split('./check ')[1].split()[0])")
  if ! git -C /repo apply /verif/seeded/$t/patch.diff 2>/dev/null; then echo "$t: patch does not apply"; continue; fi
  out=$(./check $chk 2>&1 | grep -v "^KNOWN" | tail -2 | tr '\n' ' ')
  git -C /repo checkout -- .
  case "$out" in *VIOLATION*no-failing-input-found*) r="DETECTED(tie/proof only)";; *VIOLATION*) r="DETECTED(concrete)";; *) r="MISSED";; esac
  echo "$t $chk $r"
done
git -C /repo status --short | head -3
