"""Library behind ./check: build stage, trace stage, diff, monitors, verdicts, evidence."""
import concurrent.futures
import fcntl
import glob
import hashlib
import json
import os
import re
import shutil
import subprocess
import sys
import time

NPROC = 16
CONTROL = set("CIAOQYGM")

# property -> what ties it to the code
#   tags   : observation tags whose model/implementation disagreement breaks this property's tie
#   fields : fields of the S (state) line, likewise
#   mon    : monitor number in coq/model/Monitors.v
PROPS = {
    "C01": dict(n=1, tags=['N'], fields=[], title="offered steps = legal Arimaa steps"),
    "C02": dict(n=2, tags=[], fields=["board"], title="step effect and captures"),
    "C03": dict(n=3, tags=[], fields=["side", "move_no", "phase", "step", "trapped"], title="turn structure"),
    "C04": dict(n=4, tags=['T0'], fields=[], title="result order"),
    "C05": dict(n=5, tags=['V'], fields=["hist", "init_hash"], title="no unchanged turn / third repetition"),
    "C06": dict(n=6, tags=['V'], fields=["hist", "init_hash", "trapped"], title="repetition filter exact"),
    "C07": dict(n=7, tags=['V', 'T'], fields=[], title="liveness and summary queries"),
    "C08": dict(n=8, tags=['H', 'F'], fields=["hash", "hist", "init_hash"], title="hash = from-scratch hash"),
    "C09": dict(n=9, tags=['N'], fields=["board", "side", "move_no", "phase"], title="setup", gens=["setup"]),
    "C10": dict(n=10, tags=['D', 'W'], fields=["board"], title="consistent views"),
    "C11": dict(n=11, tags=[], fields=[], title="symmetry"),
    "C12": dict(n=12, tags=['N'], fields=["pps"], title="push/pull status"),
    "C13": dict(n=13, tags=['K'], fields=[], title="capture preview"),
    "C14": dict(n=14, tags=['B', 'L'], fields=["prev"], title="earlier boards of the turn"),
    "C15": dict(n=15, tags=['D', 'R', 'E', '4'], fields=[], title="diagram round trip, parser totality"),
    "C16": dict(n=16, tags=['P', 'Z'], fields=[], title="notation round trip, parser totality"),
    "C17": dict(n=17, tags=['H'], fields=[], title="one-feature hash sensitivity", gens=["tables"]),
    "C18": dict(n=18, tags=[], fields=[], title="Send + Sync, concurrent expansion"),
    "C19": dict(n=19, tags=['X'], fields=[], title="no panics"),
    "C20": dict(n=20, tags=[], fields=[], title="stack use independent of history length"),
}
NUM2PROP = {v["n"]: k for k, v in PROPS.items()}

FORBIDDEN = re.compile(
    r"\b(Admitted|admit|Axiom|Axioms|Parameter|Parameters|Conjecture|Conjectures|Abort All)\b|Unset\s+Guard|Unset\s+Positivity|"
    r"Unset\s+Universe|bypass_check|type-in-type|impredicative-set|Admit\s+Obligations")
# axioms of the standard library that may appear under Print Assumptions (none are needed today)
AXIOM_ALLOW = {
    "Coq.Logic.FunctionalExtensionality.functional_extensionality_dep",
    "functional_extensionality_dep",
}


class Ctx:
    def __init__(self, verif, repo, tier, seed):
        self.verif, self.repo, self.tier, self.seed = verif, repo, tier, seed
        self.coq = os.path.join(verif, "coq")
        self.cache = os.path.join(verif, "_cache")
        self.build = os.path.join(verif, "_build")
        os.makedirs(self.cache, exist_ok=True)
        os.makedirs(self.build, exist_ok=True)


def sh(cmd, cwd=None, timeout=3600, env=None):
    e = dict(os.environ)
    e.update({"CARGO_NET_OFFLINE": "true", "LC_ALL": "C.UTF-8"})
    if env:
        e.update(env)
    t0 = time.time()
    try:
        p = subprocess.run(cmd, cwd=cwd, shell=isinstance(cmd, str), stdout=subprocess.PIPE, stderr=subprocess.STDOUT,
                           timeout=timeout, env=e)
        out = p.stdout.decode("utf-8", "replace")
        return p.returncode, out, time.time() - t0
    except subprocess.TimeoutExpired as ex:
        return 124, (ex.stdout or b"").decode("utf-8", "replace") + "\n[timeout]", time.time() - t0


def sha_files(paths, extra=""):
    h = hashlib.sha256()
    for p in sorted(paths):
        h.update(p.encode())
        try:
            with open(p, "rb") as f:
                h.update(f.read())
        except OSError:
            h.update(b"<missing>")
    h.update(extra.encode())
    return h.hexdigest()


def repo_files(ctx):
    fs = glob.glob(os.path.join(ctx.repo, "src", "**", "*.rs"), recursive=True)
    fs += [os.path.join(ctx.repo, "Cargo.toml"), os.path.join(ctx.repo, "Cargo.lock")]
    return fs


class Lock:
    def __init__(self, path):
        self.path = path

    def __enter__(self):
        self.f = open(self.path, "w")
        fcntl.flock(self.f, fcntl.LOCK_EX)
        return self

    def __exit__(self, *a):
        fcntl.flock(self.f, fcntl.LOCK_UN)
        self.f.close()


# ---------------------------------------------------------------------------------------------
# build stage: translator, Coq, extraction, OCaml driver, Rust harness

def build_all(ctx):
    """Regenerates coq/gen from the working tree and (re)builds whatever is stale.
    Returns a dict describing what is usable."""
    info = {"t0": time.time()}
    with Lock(os.path.join(ctx.cache, "build.lock")):
        # Rust harness, both profiles, each binary separately (a Send/Sync failure must not take the tracer down)
        hd = os.path.join(ctx.verif, "harness")
        lock_src = os.path.join(ctx.repo, "Cargo.lock")
        info["cargo"] = {}
        env = {"CARGO_TARGET_DIR": os.path.join(ctx.build, "harness")}
        if ctx.repo != "/repo":
            # replay against a scratch copy: point the path dependency there
            env["VERIF_REPO_OVERRIDE"] = ctx.repo
        for prof, flag in (("debug", ""), ("release", "--release")):
            for b in ("probe", "verif_harness", "sendsync", "conc"):
                if prof == "debug" and b in ("sendsync",):
                    continue
                if prof == "release" and b == "probe":
                    continue
                rc, out, dt = sh("cargo build --offline %s --bin %s 2>&1" % (flag, b), cwd=hd, env=env, timeout=1800)
                info["cargo"]["%s.%s" % (prof, b)] = {"rc": rc, "s": round(dt, 1),
                                                      "err": "\n".join(l for l in out.splitlines() if not l.startswith("warning"))[-3000:] if rc else ""}
        rc, out, dt = sh([sys.executable, os.path.join(ctx.verif, "tools", "gen_coq.py"), ctx.repo,
                          os.path.join(ctx.coq, "gen")])
        info["gen_rc"], info["gen_out"] = rc, out.strip()
        if not os.path.exists(os.path.join(ctx.coq, "Makefile")) or \
                os.path.getmtime(os.path.join(ctx.coq, "Makefile")) < os.path.getmtime(os.path.join(ctx.coq, "_CoqProject")):
            sh("coq_makefile -f _CoqProject -o Makefile", cwd=ctx.coq)
        rc, out, dt = sh("timeout 3000 make -k -j%d 2>&1" % NPROC, cwd=ctx.coq, timeout=3100)
        info["coq_rc"], info["coq_s"] = rc, round(dt, 1)
        info["coq_log"] = out[-6000:]
        info["coq_failed"] = sorted(set(re.findall(r'File "\./([^"]+\.v)", line \d+', out)))
        info["coq_errors"] = re.findall(r'(File "\./[^"]+\.v", line \d+, characters [\d-]+:\nError:[^\n]*(?:\n[^\n]+){0,6})', out)[:10]
        with open(os.path.join(ctx.cache, "coq_make.log"), "w") as f:
            f.write(out)
        # extraction -> driver
        ml = os.path.join(ctx.coq, "extract", "model.ml")
        ext_ok = os.path.exists(os.path.join(ctx.coq, "extract", "Extract.vo")) and os.path.exists(ml) and \
            "extract/Extract.v" not in info["coq_failed"]
        if ext_ok:
            # Extract.vo must be newer than every model file it depends on (make -k leaves stale outputs otherwise)
            rcq, _, _ = sh("make -q extract/Extract.vo", cwd=ctx.coq)
            ext_ok = rcq == 0
        info["model_ok"] = ext_ok
        od = os.path.join(ctx.build, "ocaml")
        os.makedirs(od, exist_ok=True)
        if ext_ok:
            key = sha_files([ml, ml + "i", os.path.join(ctx.verif, "ocaml", "driver.ml")])
            stamp = os.path.join(od, "stamp")
            if not (os.path.exists(stamp) and open(stamp).read() == key and os.path.exists(os.path.join(od, "modelrun"))):
                for f in (ml, ml + "i", os.path.join(ctx.verif, "ocaml", "driver.ml")):
                    shutil.copy(f, od)
                rc, out, dt = sh("ocamlfind ocamlopt -O3 -w -a model.mli model.ml driver.ml -o modelrun", cwd=od)
                info["ocaml_rc"], info["ocaml_out"] = rc, out[-2000:]
                if rc == 0:
                    open(stamp, "w").write(key)
                else:
                    info["model_ok"] = False
    info["build_s"] = round(time.time() - info.pop("t0"), 1)
    return info


def setup(ctx):
    info = build_all(ctx)
    ok = info["gen_rc"] == 0 and info["coq_rc"] == 0 and info["model_ok"] and all(v["rc"] == 0 for v in info["cargo"].values())
    print(json.dumps({k: v for k, v in info.items() if k not in ("coq_log",)}, indent=1)[:4000])
    print("setup", "ok" if ok else "FAILED")
    return 0 if ok else 1


# ---------------------------------------------------------------------------------------------
# trace stage

def stage_key(ctx):
    fs = repo_files(ctx)
    fs += glob.glob(os.path.join(ctx.verif, "harness", "src", "**", "*.rs"), recursive=True)
    fs += [os.path.join(ctx.verif, "harness", "Cargo.toml"), os.path.join(ctx.verif, "ocaml", "driver.ml"),
           os.path.join(ctx.verif, "tools", "checklib.py"), os.path.join(ctx.verif, "tools", "gen_coq.py"),
           os.path.join(ctx.verif, "known_findings.json")]
    fs += glob.glob(os.path.join(ctx.coq, "model", "*.v")) + glob.glob(os.path.join(ctx.coq, "spec", "*.v"))
    fs += glob.glob(os.path.join(ctx.verif, "corpus", "*"))
    return ctx.tier + "-" + sha_files(fs, "%s|%d" % (ctx.tier, ctx.seed))[:24]


def gen_plan(ctx):
    """(profile, generator, shard, nshards)"""
    jobs = []
    for g in ("local", "play", "rep", "setup", "tables", "str"):
        for s in range(NPROC):
            jobs.append(("debug", g, s, NPROC))
    rel = ("str", "play", "rep", "setup") if ctx.tier == "quick" else ("str", "play", "rep", "setup", "local", "tables")
    for g in rel:
        for s in range(NPROC):
            jobs.append(("release", g, s, NPROC))
    for prof in ("debug", "release"):
        for path in sorted(glob.glob(os.path.join(ctx.verif, "corpus", "*.script"))):
            jobs.append((prof, "corpus:" + path, 0, 1))
    return jobs


def parse_items(path):
    items = []
    cur = None
    with open(path, encoding="utf-8", errors="replace") as f:
        for ln, line in enumerate(f):
            line = line.rstrip("\n")
            if not line:
                continue
            if line[0] in CONTROL:
                cur = [line, [], ln]
                items.append(cur)
            elif cur is not None:
                cur[1].append(line)
    return items


S_FIELDS = ["board", "side", "move_no", "hash", "phase", "pps", "trapped", "init_hash", "step", "prev", "hist"]


def dec_s(line):
    v = line.split()[1:]
    d = {"board": tuple(v[0:8]), "side": v[8], "move_no": v[9], "hash": v[10], "phase": v[11]}
    if v[11] != "0" and len(v) > 17:
        d["pps"] = tuple(v[12:15])
        d["trapped"] = v[15]
        d["init_hash"] = v[16]
        np_ = int(v[17], 16)
        d["step"] = v[17]
        d["prev"] = tuple(v[18:18 + 8 * np_])
        d["hist"] = tuple(v[18 + 8 * np_:])
    return d


def popcount_hex(h):
    return bin(int(h, 16)).count("1")


def job_run(args):
    """One shard: implementation trace, model replay, monitors, diff. Returns a compact summary."""
    verif, build, outdir, prof, gen, shard, nshards, seed, tier = args
    name = "%s.%s.%d" % (prof, gen.split("/")[-1].replace("corpus:", "corpus-"), shard)
    tr = os.path.join(outdir, name + ".tr")
    mo = os.path.join(outdir, name + ".mo")
    mon = os.path.join(outdir, name + ".mon")
    hb = os.path.join(build, "harness", prof, "verif_harness")
    res = {"name": name, "prof": prof, "gen": gen, "shard": shard, "tr": tr}
    t0 = time.time()
    if gen.startswith("corpus:"):
        cmd = [hb, "trace", "corpus", str(seed), "0", "1", tier, tr, gen[7:]]
    else:
        cmd = [hb, "trace", gen, str(seed), str(shard), str(nshards), tier, tr]
    def _limits():
        import resource
        # a generator that does not terminate on a changed crate must not take the machine down
        resource.setrlimit(resource.RLIMIT_AS, (12 << 30, 12 << 30))
    try:
        p = subprocess.run(cmd, stdout=subprocess.PIPE, stderr=subprocess.PIPE, timeout=(600 if tier == "quick" else 3000), preexec_fn=_limits)
    except subprocess.TimeoutExpired:
        res["impl_rc"] = 124
        res["stats"] = {}
        res["error"] = "harness did not terminate within the time limit: a generated game does not end on this crate (job %s)" % name
        return res
    res["impl_rc"] = p.returncode
    try:
        res["stats"] = json.loads(p.stdout.decode().strip().splitlines()[-1])
    except Exception:
        res["stats"] = {}
    if p.returncode != 0 or not os.path.exists(tr):
        res["error"] = "harness failed: " + p.stderr.decode("utf-8", "replace")[-500:]
        return res
    res["impl_s"] = round(time.time() - t0, 2)
    mr = os.path.join(build, "ocaml", "modelrun")
    t1 = time.time()
    p1 = subprocess.Popen([mr, "replay", tr, mo], stdout=subprocess.PIPE, stderr=subprocess.PIPE)
    p2 = subprocess.Popen([mr, "monitor", tr, mon], stdout=subprocess.PIPE, stderr=subprocess.PIPE)
    o1 = p1.communicate(timeout=3000)
    o2 = p2.communicate(timeout=3000)
    res["model_s"] = round(time.time() - t1, 2)
    if p1.returncode != 0 or p2.returncode != 0:
        res["error"] = "model driver failed: " + (o1[1] + o2[1]).decode("utf-8", "replace")[-500:]
        return res
    # ---- diff and coverage counters
    a = parse_items(tr)
    b = parse_items(mo)
    res["items"] = len(a)
    diffs = []          # (case_item_index, item_index, what, impl, model)
    cov = {}            # property -> set of keys
    cov_n = {}          # property -> evaluations

    def hit(pid, key, nontrivial=True):
        cov_n[pid] = cov_n.get(pid, 0) + 1
        if nontrivial:
            cov.setdefault(pid, set()).add(hash(key))

    samples = {}
    if len(a) != len(b):
        diffs.append((0, 0, "skeleton", "items=%d" % len(a), "items=%d" % len(b)))
    case_i = 0
    case_bad = False
    prev_s = None
    prev_act = None
    case_gen = ""
    for i in range(min(len(a), len(b))):
        ca, oa, _ = a[i]
        cb, ob, _ = b[i]
        c0 = ca[0]
        if c0 == "C":
            case_i, case_bad, prev_s, prev_act = i, False, None, None
            case_gen = ca.split()[1] if len(ca.split()) > 1 else ""
        if ca != cb:
            diffs.append((case_i, i, "skeleton", ca[:80], cb[:80]))
            break
        if c0 == "A":
            prev_act = ca.split()[1]
        # coverage counters, from the implementation's own lines
        if c0 == "O":
            da = {}
            for l in oa:
                da.setdefault(l[0], []).append(l)
            if "S" in da:
                s = dec_s(da["S"][0])
                reach = not case_gen.startswith("table-")
                play = s["phase"] != "0" and "pps" in s
                skey = (s["board"], s["side"], s.get("step"), s.get("pps"))
                if "N" in da and play and reach:
                    nl = da["N"][0].split()[1:]
                    mover_bits = int(s["board"][0], 16) if s["side"] != "0" else (int(s["board"][1], 16) & ~int(s["board"][0], 16))
                    enemy_mv = any(x != "0" and not (mover_bits >> ((int(x, 16) - 16) // 4)) & 1 for x in nl)
                    hit("C01", skey, enemy_mv or s["pps"][0] != "0")
                    hit("C12", skey, s["pps"][0] != "0")
                    if "V" in da:
                        vl = da["V"][0].split()[1:]
                        hit("C06", (skey, s.get("hist"), s.get("init_hash")), len(vl) != len(nl))
                        hit("C07", (skey, s.get("hist")), len(vl) != len(nl) or len(vl) == 0 or s.get("step") != "0")
                    if "K" in da:
                        kl = da["K"][0].split()[1:]
                        hit("C13", skey, any(x != "0" for x in kl))
                    if "T" in da and s.get("step") == "0":
                        hit("C04", (skey, da["T"][0]), da["T"][0].split()[1] != "0")
                    elif "T" in da:
                        hit("C04", (skey, da["T"][0]), True)
                if "N" in da and not play and reach:
                    hit("C09", (s["board"], s["side"]), True)
                    hit("C07", (s["board"], s["side"]), False)
                if "H" in da and reach and play:
                    hit("C08", (skey, da["H"][0]), s["pps"][0] != "0" or s.get("step") != "0")
                if "H" in da and not reach:
                    hit("C17", da["S"][0], True)
                if "B" in da:
                    hit("C14", skey, len(da["B"]) > 1)
                if "D" in da:
                    hit("C10", s["board"], True)
                    hit("C15", da["D"][0], True)
                if reach:
                    hit("C19", skey, True)
                if prev_s is not None and prev_act is not None and reach:
                    tkey = (prev_s["board"], prev_s["side"], prev_s.get("step"), prev_act)
                    captured = popcount_hex(s["board"][1]) < popcount_hex(prev_s["board"][1])
                    if prev_s["phase"] != "0":
                        hit("C02", tkey, True)
                        if captured:
                            cov.setdefault("C02.captures", set()).add(hash(tkey))
                        turn_end = prev_act == "0" or prev_s.get("step") == "3"
                        hit("C03", tkey, turn_end)
                        if turn_end:
                            hit("C05", (tkey, prev_s.get("hist")), True)
                    else:
                        hit("C09", tkey, True)
                        hit("C03", tkey, False)
                prev_s, prev_act = s, None
            else:
                prev_s, prev_act = None, None
        elif c0 == "Q":
            which = ca.split()[1]
            hit("C15" if which == "4" else "C16", ca, bool(oa) and oa[0].startswith("P 2"))
        elif c0 in "YG":
            hit("C16", ca, True)
        if pid_sample_needed(samples, c0):
            samples.setdefault(c0, ca[:200] + (" / " + oa[0][:200] if oa else ""))
        # ---- diff
        if oa == ob or case_bad:
            continue
        da, db = {}, {}
        for l in oa:
            da.setdefault(l[0], []).append(l)
        for l in ob:
            db.setdefault(l[0], []).append(l)
        what = []
        for t in sorted(set(da) | set(db)):
            la, lb = da.get(t, []), db.get(t, [])
            if la == lb:
                continue
            if t == "S" and la and lb:
                sa, sb = dec_s(la[0]), dec_s(lb[0])
                for fld in S_FIELDS:
                    if sa.get(fld) != sb.get(fld):
                        what.append("S." + fld)
            elif t in "VN" and la and lb:
                if sorted(la[0].split()[1:]) != sorted(lb[0].split()[1:]):
                    what.append(t)
                else:
                    what.append(t + ".order")
            elif t == "K" and la and lb and "N" in da and "N" in db:
                za = sorted(zip(da["N"][0].split()[1:], la[0].split()[1:]))
                zb = sorted(zip(db["N"][0].split()[1:], lb[0].split()[1:]))
                if za != zb:
                    what.append("K")
            elif t == "T" and la and lb:
                xa, xb = la[0].split()[1:], lb[0].split()[1:]
                if xa[:1] != xb[:1]:
                    what.append("T0")
                if xa[1:] != xb[1:]:
                    what.append("T")
            elif t == "P":
                what.append("4" if ca.split()[1] == "4" else "P")
            else:
                what.append(t)
        if any(w.startswith("S.") for w in what):
            # the state itself differs: the other observations of this block differ as a consequence
            what = [w for w in what if w.startswith("S.") or w == "X"]
        if what:
            case_bad = c0 not in "QYG"
            diffs.append((case_i, i, ",".join(what),
                          " | ".join(l[:160] for l in oa if l not in ob)[:600],
                          " | ".join(l[:160] for l in ob if l not in oa)[:600]))
    # scripts for the first few diffs
    res["ndiffs"] = len(diffs)
    res["diffs"] = []
    for (ci, ii, what, ia, ib) in diffs[:40]:
        script = [a[j][0] for j in range(ci, min(ii + 1, len(a)))] if ii >= ci else []
        slines = []
        for j in range(ci, min(ii + 1, len(a))):
            slines += [l for l in a[j][1] if l.startswith("S ")]
        res["diffs"].append({"what": what, "impl": ia, "model": ib, "script": script[-400:], "context": [l[:600] for l in slines[-2:]],
                             "trace": tr, "line": a[ii][2] + 1 if ii < len(a) else 0})
    res["diff_whats"] = {}
    for d in diffs:
        for w in d[2].split(","):
            res["diff_whats"][w] = res["diff_whats"].get(w, 0) + 1
    # ---- monitor hits
    hits = []
    totals = None
    with open(mon) as f:
        for l in f:
            p_ = l.split()
            if p_[0] == "F":
                hits.append((int(p_[1]), int(p_[2]), int(p_[3]), int(p_[4])))
            elif p_[0] == "T":
                totals = [int(x) for x in p_[1:]]
    res["mon_totals"] = totals
    res["nhits"] = len(hits)
    res["hits"] = []
    if hits:
        lines = open(tr, encoding="utf-8", errors="replace").read().split("\n")
        seen = set()
        for (pn, code, cl, ln) in hits:
            if (pn, code) in seen and len(res["hits"]) > 60:
                continue
            seen.add((pn, code))
            # the block ends at the next control line after ln
            end = ln
            while end < len(lines) and lines[end] and lines[end][0] not in CONTROL:
                end += 1
            script = [x for x in lines[cl - 1:ln] if x and x[0] in CONTROL]
            ctxl = [x for x in lines[max(cl - 1, ln - 40):end] if x]
            # the last two state lines at or before the failure (pre-state and post-state of a transition)
            slines = [x for x in lines[cl - 1:end] if x.startswith("S ")][-2:]
            res["hits"].append({"prop": pn, "code": code, "script": script[-400:], "context": [c[:600] for c in slines] + [c[:300] for c in ctxl[-14:]],
                                "trace": tr, "line": ln})
    res["cov"] = {k: len(v) for k, v in cov.items()}
    res["cov_n"] = cov_n
    res["samples"] = samples
    res["total_s"] = round(time.time() - t0, 2)
    return res


def pid_sample_needed(samples, c0):
    return c0 in "OQYGA" and c0 not in samples


def cross_check_extraction(ctx, sdir, jobs):
    """Keeps extraction and the OCaml driver out of the silent part of the trusted base: a sample of the observation
    blocks the extracted model printed (.mo files) is recomputed INSIDE Coq with vm_compute from the same start text and
    actions, and compared there (the Coq file only prints booleans)."""
    picks = []
    for j in jobs:
        if j.get("error") or j["prof"] != "debug":
            continue
        g = j["gen"].split(":")[0]
        if g not in ("play", "rep", "setup", "local", "corpus") or j["shard"] not in (0, 5, 11):
            continue
        mo = j["tr"][:-3] + ".mo"
        items = parse_items(mo)
        init, acts, taken, ncase = None, [], 0, 0
        for ctrl, obs, _ in items:
            c0 = ctrl[0]
            if c0 == "C":
                init, acts, taken = None, [], 0
                ncase += 1
                if ncase > 3:
                    break
            elif c0 == "I":
                v = ctrl.split()[1:]
                init = v if v[0] in ("0", "1") else None
            elif c0 == "A":
                acts.append(ctrl.split()[1])
            elif c0 == "O" and init is not None and ctrl.split()[1] == "0" and taken < 2 and len(acts) <= 12 and obs:
                picks.append((list(init), list(acts), obs))
                taken += 1
    picks = picks[:36]
    if not picks:
        return {"cases": 0, "ok": False, "error": "no sample"}
    d = os.path.join(sdir, "cases")
    os.makedirs(d, exist_ok=True)

    def nl(xs):
        return "[" + "; ".join(str(int(x, 16)) for x in xs) + "]"
    out = ["From Coq Require Import NArith List Bool.", "From Arimaa Require Import Types U64 Board Zobrist Engine Notation Display Trace Monitors.",
           "Import ListNotations.", "Open Scope N_scope.",
           "Fixpoint blk_eqb (a b : list (N * list N)) : bool := match a, b with [] , [] => true | (t, v) :: a', (t', v') :: b' => (t =? t') && list_eqb v v' && blk_eqb a' b' | _, _ => false end.",
           "Definition start (i : list N) : state := match i with 0 :: _ => initial | _ :: cps => match parse_state true cps with Ok s => s | _ => initial end | [] => initial end.",
           "Definition play (s : state) (l : list N) : state := fold_left (fun s a => match dec_action a with Some x => take_action s x | None => s end) l s."]
    for n, (init, acts, obs) in enumerate(picks):
        exp = "[" + "; ".join("(%d, %s)" % (ord(l[0]), nl(l.split()[1:])) for l in obs) + "]"
        out.append("Definition case_%d : bool := blk_eqb (observe true (play (start %s) %s)) %s." % (n, nl(init), nl(acts), exp))
    out.append("Eval vm_compute in [%s]." % "; ".join("case_%d" % n for n in range(len(picks))))
    with open(os.path.join(d, "cases.v"), "w") as f:
        f.write("\n".join(out) + "\n")
    rc, o, dt = sh("timeout 900 coqc -Q %s/gen Arimaa -Q %s/model Arimaa -Q %s/spec Arimaa -Q %s Cases cases.v 2>&1" % (ctx.coq, ctx.coq, ctx.coq, d), cwd=d, timeout=1000)
    txt = " ".join(o.split())
    ok = rc == 0 and "false" not in txt and txt.count("true") >= len(picks)
    return {"cases": len(picks), "ok": ok, "seconds": round(dt, 1), "output": txt[-300:] if not ok else ""}


def run_stage(ctx, binfo):
    key = stage_key(ctx)
    sdir = os.path.join(ctx.cache, "stage", key)
    summ = os.path.join(sdir, "summary.json")
    with Lock(os.path.join(ctx.cache, "stage.lock")):
        if os.path.exists(summ):
            return json.load(open(summ)), sdir
        # keep the cache small: drop older stages
        for d in glob.glob(os.path.join(ctx.cache, "stage", ctx.tier + "-*")) + \
                [x for x in glob.glob(os.path.join(ctx.cache, "stage", "*")) if "-" not in os.path.basename(x)]:
            if d != sdir:
                shutil.rmtree(d, ignore_errors=True)
        os.makedirs(sdir, exist_ok=True)
        t0 = time.time()
        out = {"key": key, "tier": ctx.tier, "seed": ctx.seed, "jobs": []}
        hb_ok = all(binfo["cargo"].get(p + ".verif_harness", {}).get("rc", 1) == 0 for p in ("debug", "release"))
        if not (binfo.get("model_ok") and hb_ok):
            out["unavailable"] = "model extraction or harness build failed"
        else:
            jobs = [(ctx.verif, ctx.build, sdir, prof, g, s, n, ctx.seed, ctx.tier) for (prof, g, s, n) in gen_plan(ctx)]
            with concurrent.futures.ProcessPoolExecutor(max_workers=NPROC) as ex:
                for r in ex.map(job_run, jobs):
                    out["jobs"].append(r)
        if not out.get("unavailable"):
            out["extraction_crosscheck"] = cross_check_extraction(ctx, sdir, out["jobs"])
            if not out["extraction_crosscheck"]["ok"]:
                out["unavailable"] = "the extracted OCaml model and the same definitions evaluated inside Coq (vm_compute) disagree: " + \
                    json.dumps(out["extraction_crosscheck"])[:400]
        out["stage_s"] = round(time.time() - t0, 1)
        with open(summ + ".tmp", "w") as f:
            json.dump(out, f)
        os.replace(summ + ".tmp", summ)
        return out, sdir


# ---------------------------------------------------------------------------------------------
# proofs

def props_file(ctx, pid):
    return os.path.join(ctx.coq, "props", pid + ".v")


def theorem_names(path):
    if not os.path.exists(path):
        return []
    src = open(path).read()
    src = re.sub(r"\(\*.*?\*\)", "", src, flags=re.S)
    return re.findall(r"^\s*(?:Theorem|Lemma|Corollary)\s+([A-Za-z0-9_']+)", src, flags=re.M)


def audit_sources(ctx):
    bad = []
    for p in glob.glob(os.path.join(ctx.coq, "**", "*.v"), recursive=True):
        src = open(p, encoding="utf-8").read()
        src_nc = re.sub(r"\(\*.*?\*\)", "", src, flags=re.S)
        for m in FORBIDDEN.finditer(src_nc):
            bad.append("%s: %s" % (os.path.relpath(p, ctx.coq), m.group(0)))
    return bad


def read_lock(ctx):
    p = os.path.join(ctx.coq, "props", "LOCK")
    d = {}
    if os.path.exists(p):
        for l in open(p):
            if l.strip():
                h, n = l.split()
                d[n] = h
    return d


def write_lock(ctx):
    with open(os.path.join(ctx.coq, "props", "LOCK"), "w") as f:
        for p in sorted(glob.glob(os.path.join(ctx.coq, "props", "C*.v"))):
            f.write("%s %s\n" % (hashlib.sha256(open(p, "rb").read()).hexdigest(), os.path.basename(p)))
    print("LOCK refreshed")
    return 0


def check_proofs(ctx, pid, binfo):
    """Compiles coq/props/<pid>.v (statements + `exact lemma` + Print Assumptions) against the freshly
    built development. Returns dict(ok, obligations, discharged, axioms, failed, detail)."""
    pf = props_file(ctx, pid)
    names = theorem_names(pf)
    r = {"obligations": len(names), "discharged": 0, "theorems": names, "axioms": [], "ok": False, "detail": "", "failed": []}
    if not names:
        r["detail"] = "no property file"
        return r
    lock = read_lock(ctx)
    h = hashlib.sha256(open(pf, "rb").read()).hexdigest()
    if lock.get(os.path.basename(pf)) != h:
        r["detail"] = "statement file differs from coq/props/LOCK"
        r["failed"] = ["LOCK:" + os.path.basename(pf)]
        return r
    bad = audit_sources(ctx)
    if bad:
        r["detail"] = "forbidden construct: " + "; ".join(bad[:5])
        r["failed"] = ["audit"]
        return r
    with Lock(os.path.join(ctx.cache, "props.lock")):
        rc, out, dt = sh("timeout 1200 coqc -Q gen Arimaa -Q model Arimaa -Q spec Arimaa -Q proofs Arimaa -Q props Arimaa props/%s.v 2>&1" % pid,
                         cwd=ctx.coq, timeout=1300)
    r["coqc_s"] = round(dt, 1)
    if rc != 0:
        r["detail"] = out[-1500:]
        # which obligation: the line of the error
        m = re.search(r'File "\./props/%s\.v", line (\d+)' % pid, out)
        failing = None
        if m:
            ln = int(m.group(1))
            src = open(pf).read().split("\n")
            for j in range(ln - 1, -1, -1):
                mm = re.match(r"\s*(?:Theorem|Lemma|Corollary)\s+([A-Za-z0-9_']+)", src[j])
                if mm:
                    failing = mm.group(1)
                    break
        deps = [f for f in binfo.get("coq_failed", [])]
        r["failed"] = ([failing] if failing else []) + deps if (failing or deps) else names
        if binfo.get("coq_errors"):
            r["detail"] += "\n--- make errors ---\n" + "\n".join(binfo["coq_errors"][:3])
        return r
    closed = out.count("Closed under the global context")
    axioms = re.findall(r"^([A-Za-z0-9_.']+)\s*:", out, flags=re.M)
    axioms = [a for a in axioms if a not in names]
    r["axioms"] = sorted(set(axioms))
    notallowed = [a for a in r["axioms"] if a not in AXIOM_ALLOW]
    if notallowed:
        r["detail"] = "assumptions outside the allow-list: " + ", ".join(notallowed)
        r["failed"] = ["assumptions"]
        return r
    if closed + (1 if r["axioms"] else 0) < 1:
        r["detail"] = "no Print Assumptions output"
        r["failed"] = ["assumptions"]
        return r
    r["print_assumptions_closed"] = closed
    if ctx.tier == "thorough":
        ck = run_coqchk(ctx)
        r["coqchk"] = ck
        if not ck.get("ok"):
            r["detail"] = "coqchk: " + ck.get("summary", "")[-600:]
            r["failed"] = ["coqchk"]
            return r
    r["discharged"] = len(names)
    r["ok"] = True
    return r


def run_coqchk(ctx):
    """thorough tier: the independent checker re-checks every compiled property file with all its dependencies and
    reports the axioms they rely on; one run for all properties, cached on the hash of the Coq sources."""
    vs = glob.glob(os.path.join(ctx.coq, "**", "*.v"), recursive=True)
    key = sha_files(vs)[:20]
    cf = os.path.join(ctx.cache, "coqchk-%s.json" % key)
    with Lock(os.path.join(ctx.cache, "coqchk.lock")):
        if os.path.exists(cf):
            return json.load(open(cf))
        mods = []
        for pid in PROPS:
            if os.path.exists(os.path.join(ctx.coq, "props", pid + ".v")):
                # make sure the compiled file is there and fresh
                sh("timeout 1200 coqc -Q gen Arimaa -Q model Arimaa -Q spec Arimaa -Q proofs Arimaa -Q props Arimaa props/%s.v" % pid, cwd=ctx.coq, timeout=1300)
                mods.append("Arimaa." + pid)
        rc, out, dt = sh("timeout 3000 coqchk -silent -o -Q gen Arimaa -Q model Arimaa -Q spec Arimaa -Q proofs Arimaa -Q props Arimaa " + " ".join(mods),
                         cwd=ctx.coq, timeout=3100)
        ok = rc == 0 and "Axioms: <none>" in out and "type-in-type: <none>" in out and "unsafe (co)fixpoints: <none>" in out \
            and "positivity is assumed: <none>" in out
        res = {"ok": ok, "rc": rc, "seconds": round(dt, 1), "modules": len(mods), "summary": " ".join(out.split())[-700:]}
        for old in glob.glob(os.path.join(ctx.cache, "coqchk-*.json")):
            os.remove(old)
        json.dump(res, open(cf, "w"))
        return res


# ---------------------------------------------------------------------------------------------
# known findings

def load_known(ctx):
    p = os.path.join(ctx.verif, "known_findings.json")
    if os.path.exists(p):
        return json.load(open(p))
    return {"findings": [], "fixed": []}


def script_init_and_actions(script):
    init, acts = None, 0
    for l in script:
        if l.startswith("I "):
            init = l
        elif l.startswith("A "):
            acts += 1
    return init, acts


def match_known(known, pid, hit, any_code=False):
    """hit: dict(prop, code, script, context). Returns the finding that lists exactly this failure, if any."""
    for f in known.get("findings", []):
        if pid not in f.get("properties", []):
            continue
        m = f.get("match", {})
        if not any_code and "monitor_codes" in m and [hit.get("prop"), hit.get("code")] not in m["monitor_codes"]:
            continue
        if m.get("kind") == "move_number_max_silver_turn_end":
            # the state the action was applied to: move number 2^64-1, Silver to move
            ss = [l for l in hit.get("context", []) if l.startswith("S ")]
            ok = False
            for l in ss:
                v = l.split()
                if len(v) > 10 and v[10] == "ffffffffffffffff" and v[9] == "0":
                    ok = True
            if not ok:
                continue
            return f
        if m.get("kind") == "script":
            init, acts = script_init_and_actions(hit.get("script", []))
            if init is None:
                continue
            if hashlib.sha256(init.encode()).hexdigest() == m.get("init_sha256") and acts in m.get("actions_before_failure", []):
                return f
    return None


# ---------------------------------------------------------------------------------------------
# special runs

def run_sym(ctx, sdir, binfo):
    out = {"games": 0, "states": 0, "comparisons": 0, "withheld_compared": 0, "captures_compared": 0, "mismatch_blocks": [], "samples": []}
    hb = os.path.join(ctx.build, "harness", "release", "verif_harness")
    procs = []
    corpus = sorted(glob.glob(os.path.join(ctx.verif, "corpus", "*.script")))
    for s in range(NPROC):
        o = os.path.join(sdir, "sym.%d.out" % s)
        cmd = [hb, "sym", str(ctx.seed), str(s), str(NPROC), ctx.tier, o]
        if s < len(corpus):
            cmd.append(corpus[s])
        procs.append((o, subprocess.Popen(cmd, stdout=subprocess.PIPE, stderr=subprocess.PIPE)))
    for o, p in procs:
        so, se = p.communicate(timeout=3000)
        if p.returncode != 0:
            out["error"] = se.decode("utf-8", "replace")[-400:]
            continue
        try:
            j = json.loads(so.decode().strip().splitlines()[-1])
        except Exception:
            out["error"] = "unparsable sym output"
            continue
        for k in ("games", "states", "comparisons", "withheld_compared", "captures_compared"):
            out[k] += j.get(k, 0)
        if j.get("sample") and len(out["samples"]) < 2:
            out["samples"].append(j["sample"][:400])
        if os.path.exists(o):
            blk = None
            for l in open(o, encoding="utf-8", errors="replace"):
                l = l.rstrip("\n")
                if l.startswith("C sym-mismatch"):
                    blk = {"script": [l], "why": ""}
                    out["mismatch_blocks"].append(blk)
                elif blk is not None and l.startswith("# "):
                    blk["why"] = l[2:]
                elif blk is not None:
                    blk["script"].append(l)
    return out


def run_conc(ctx, binfo):
    r = {}
    ss = binfo["cargo"].get("release.sendsync", {})
    r["sendsync_compiles"] = ss.get("rc", 1) == 0
    r["sendsync_err"] = ss.get("err", "")[-1500:]
    if r["sendsync_compiles"]:
        rc, out, dt = sh([os.path.join(ctx.build, "harness", "release", "sendsync")])
        r["sendsync_out"] = out.strip()
    cc = binfo["cargo"].get("release.conc", {})
    r["conc_compiles"] = cc.get("rc", 1) == 0
    if r["conc_compiles"]:
        roots = 400 if ctx.tier == "quick" else 4000
        rc, out, dt = sh([os.path.join(ctx.build, "harness", "release", "conc"), str(ctx.seed), "16", str(roots)], timeout=3000)
        r["conc_rc"] = rc
        try:
            r["conc"] = json.loads(out.strip().splitlines()[0])
        except Exception:
            r["conc"] = {"error": out[-400:]}
        r["conc_bad"] = [l for l in out.splitlines() if l.startswith("BAD")][:2]
        r["conc_s"] = round(dt, 1)
    return r


def run_stack(ctx, binfo):
    r = {"runs": []}
    hb = os.path.join(ctx.build, "harness", "release", "verif_harness")
    hd = os.path.join(ctx.build, "harness", "debug", "verif_harness")
    cb = os.path.join(ctx.build, "harness", "release", "conc")
    cd = os.path.join(ctx.build, "harness", "debug", "conc")
    # several history lengths: a recursive drop hidden behind a length window must not fall between two probes
    import random as _r
    rr = _r.Random(ctx.seed)
    extra = [rr.randrange(2000, 20000) for _ in range(2)]
    plan = [(cb, 120000), (cd, 25000), (cd, 3000), (cd, 12000)] + [(cd, x) for x in extra] if ctx.tier == "quick" else \
        [(cb, 100000), (cd, 40000), (cb, 200000), (cd, 3000), (cd, 8000), (cd, 12000), (cd, 16000), (cd, 20000)] + [(cd, x) for x in extra]
    for binp, turns in plan:
        rc, out, dt = sh([binp, "stack", str(turns), str(ctx.seed), str(2 * 1024 * 1024)], timeout=3000)
        r["runs"].append({"profile": "release" if binp == cb else "debug", "turns": turns, "rc": rc, "out": out.strip()[-300:], "s": round(dt, 1)})
    base = [1, 2, 3, 10, 100, 1000, 4096, 10000, 12000, 16383, 16384, 20000, 32768, 65536, 100000, 250000, 1000000]
    base += [rr.randrange(2, 300000) for _ in range(8)]
    if ctx.tier != "quick":
        base += [10000000] + [rr.randrange(2, 3000000) for _ in range(16)]
    lens = [str(x) for x in base]
    rc, out, dt = sh([hb, "dropprobe"] + lens, timeout=3000)
    r["probe_rc"] = rc
    r["probe"] = [dict(kv.split("=") for kv in l.split()[1:]) for l in out.splitlines() if l.startswith("PROBE")]
    rc, out, dt = sh([hd, "dropprobe"] + [x for x in lens if int(x) <= 100000], timeout=3000)
    r["probe_debug"] = [dict(kv.split("=") for kv in l.split()[1:]) for l in out.splitlines() if l.startswith("PROBE")]
    return r


def c17_pairs(sdir):
    """Exhaustive pairwise check, on the implementation's own transposition hashes, over the constructed
    states of the `tables` generator. Returns (pairs_checked, collisions)."""
    recs = []
    for tr in glob.glob(os.path.join(sdir, "*.tables.*.tr")):
        cur_i = None
        for l in open(tr):
            if l.startswith("I 2"):
                cur_i = tuple(l.split()[2:])
            elif l.startswith("H ") and cur_i is not None:
                recs.append((os.path.basename(tr).split(".")[0], cur_i, l.split()[1]))
                cur_i = None
    pairs, coll = 0, []
    # I 2 fields: p1 e m h d c r side move_no step kind sq piece trapped
    for prof in ("debug", "release"):
        rs = [(i, h) for (p, i, h) in recs if p == prof]
        groups = {}
        for i, h in rs:
            board, side, step, status = i[0:7], i[7], i[9], i[10:13]
            # groups in which exactly one feature varies
            single = sum(bin(int(x, 16)).count("1") for x in board[1:]) <= 1
            if single and status == ("0", "0", "0"):
                groups.setdefault(("content-or-square", side, step), []).append((i, h))
                groups.setdefault(("side", board, step), []).append((i, h))
                groups.setdefault(("step", board, side), []).append((i, h))
            if all(x == "0" for x in board):
                groups.setdefault(("status", side, step), []).append((i, h))
        for g, lst in groups.items():
            seen = {}
            for i, h in lst:
                if h in seen and seen[h] != i:
                    coll.append({"group": g[0], "a": list(seen[h]), "b": list(i), "hash": h, "profile": prof})
                seen[h] = i
            pairs += len(lst) * (len(lst) - 1) // 2
    return pairs, coll, len(recs)


# ---------------------------------------------------------------------------------------------
# verdict

def relevant_diff(pid, what):
    cfg = PROPS[pid]
    for w in what.split(","):
        if w == "skeleton":
            return True
        if w.startswith("S."):
            if w[2:] in cfg["fields"]:
                return True
        elif w.endswith(".order"):
            continue
        elif w in cfg["tags"]:
            return True
    return False


def write_replay(ctx, pid, name, payload):
    d = os.path.join(ctx.verif, "replay")
    os.makedirs(d, exist_ok=True)
    h = hashlib.sha256(json.dumps(payload, sort_keys=True).encode()).hexdigest()[:12]
    p = os.path.join(d, "%s-%s-%s.json" % (pid, name, h))
    with open(p, "w") as f:
        json.dump(payload, f, indent=1)
    return p


def check_property(ctx, pid):
    t0 = time.time()
    cfg = PROPS[pid]
    binfo = build_all(ctx)
    stage, sdir = run_stage(ctx, binfo)
    proofs = check_proofs(ctx, pid, binfo)
    known = load_known(ctx)
    violations = []     # (kind, payload)
    known_lines = []
    jobs = [j for j in stage.get("jobs", [])]
    errors = [j for j in jobs if j.get("error")]
    # ---- correspondence relevant to this property
    tie_breaks = []
    tie_known = 0
    for j in jobs:
        for d in j.get("diffs", []):
            if relevant_diff(pid, d["what"]):
                # a disagreement on an input that is a listed finding (the model follows the rule, the
                # implementation is known to deviate there) is reported as that finding, not as a broken tie
                f = match_known(known, pid, {"script": d.get("script", []), "context": d.get("context", [])}, any_code=True)
                if f:
                    tie_known += 1
                    line = "KNOWN-FINDING: property=%s %s" % (pid, f["what"])
                    if line not in known_lines:
                        known_lines.append(line)
                else:
                    tie_breaks.append(dict(d, job=j["name"], profile=j["prof"]))
    # ---- monitor hits for this property
    mon_hits = []
    tie_local = []
    for j in jobs:
        for h in j.get("hits", []):
            if h["prop"] == cfg["n"]:
                mon_hits.append(dict(h, job=j["name"], profile=j["prof"]))
            elif h["prop"] == 0:
                tie_local.append(dict(h, job=j["name"], profile=j["prof"]))
    special = {}
    # ---- C01: a step after which the engine's pending status differs from the model's, on the same board / side /
    # step, AND the rule-only list offered there differs from the model's list.  The model's list is the set of
    # rule-book continuations (C01_automaton_iff_rulebook), so the script is a concrete offered sequence that is not a
    # prefix of a legal turn (or a legal continuation that is withheld) - not merely a wrong status (that is C12's).
    if pid == "C01":
        def seg(block, tag):
            for part in block.split(" | "):
                w = part.split()
                if w and w[0] == tag:
                    return w[1:]
            return None
        for j in jobs:
            for d in j.get("diffs", []):
                ws = d.get("what", "").split(",")
                if "S.pps" in ws and not any(x.startswith("S.") and x != "S.pps" and x not in ("S.hash",) for x in ws):
                    ni, nm = seg(d.get("impl", ""), "N"), seg(d.get("model", ""), "N")
                    if ni is not None and nm is not None and sorted(ni) != sorted(nm):
                        mon_hits.append({"prop": 1, "code": 5, "script": d.get("script", []),
                                         "context": ["implementation N: " + " ".join(ni), "model N (rule-book continuations): " + " ".join(nm)] + d.get("context", [])[:2],
                                         "job": j["name"], "profile": j["prof"]})
    # ---- property-specific machinery
    if pid == "C11" and not stage.get("unavailable"):
        special = run_sym(ctx, sdir, binfo)
        for b in special["mismatch_blocks"]:
            mon_hits.append({"prop": 11, "code": 1, "script": b["script"], "context": [b["why"]], "job": "sym", "profile": "release"})
        if special.get("error"):
            errors.append({"name": "sym", "error": special["error"]})
    if pid == "C17" and not stage.get("unavailable"):
        pairs, coll, nrec = c17_pairs(sdir)
        special = {"pairs_checked": pairs, "collisions": len(coll), "records": nrec}
        for c in coll[:5]:
            mon_hits.append({"prop": 17, "code": 1, "script": ["C c17-collision", "I 2 " + " ".join(c["a"]), "O 1",
                                                               "C c17-collision", "I 2 " + " ".join(c["b"]), "O 1"],
                             "context": [json.dumps(c)], "job": "tables", "profile": c["profile"]})
    if pid == "C18":
        special = run_conc(ctx, binfo)
        if not special["sendsync_compiles"]:
            mon_hits.append({"prop": 18, "code": 1, "script": ["# client program harness/src/bin/sendsync.rs does not compile"],
                             "context": [special["sendsync_err"]], "job": "sendsync", "profile": "release"})
        elif not special.get("conc_compiles") or special.get("conc_rc", 1) != 0 or special.get("conc", {}).get("mismatches", 1) != 0:
            mon_hits.append({"prop": 18, "code": 2, "script": ["# concurrent expansion differs from sequential expansion"] + special.get("conc_bad", []),
                             "context": [json.dumps(special.get("conc", {}))], "job": "conc", "profile": "release"})
    if pid == "C20":
        hb_ok = binfo["cargo"].get("release.verif_harness", {}).get("rc", 1) == 0 and \
            binfo["cargo"].get("release.conc", {}).get("rc", 1) == 0 and binfo["cargo"].get("debug.conc", {}).get("rc", 1) == 0
        if not hb_ok:
            errors.append({"name": "stack", "error": "the stack-probe client (harness/src/bin/conc.rs) does not compile against /repo: " +
                           binfo["cargo"].get("release.conc", {}).get("err", "")[-400:]})
        if hb_ok:
            special = run_stack(ctx, binfo)
            for r in special["runs"]:
                if r["rc"] != 0 or "OK actions" not in r["out"]:
                    mon_hits.append({"prop": 20, "code": 1, "script": ["# verif_harness stack %d %d 2097152 (%s)" % (r["turns"], ctx.seed, r["profile"])],
                                     "context": [r["out"]], "job": "stack", "profile": r["profile"]})
            spreads = [int(p["spread"]) for p in special.get("probe", []) + special.get("probe_debug", [])]
            if not spreads or max(spreads) > 4096:
                mon_hits.append({"prop": 20, "code": 2, "script": ["# verif_harness dropprobe: stack spread grows with list length"],
                                 "context": [json.dumps(special.get("probe", []) + special.get("probe_debug", []))], "job": "dropprobe", "profile": "release"})
    # ---- classify
    unknown_hits = []
    for h in mon_hits:
        f = match_known(known, pid, h)
        if f:
            line = "KNOWN-FINDING: property=%s %s" % (pid, f["what"])
            if line not in known_lines:
                known_lines.append(line)
        else:
            unknown_hits.append(h)
    proof_broken = not proofs["ok"]
    # hidden-state audit (tools/purity.py): state kept between calls in a file this property is anchored in
    import purity
    aud_all = purity.audit(ctx.repo)
    anchored = purity.anchored_files(os.path.join(ctx.verif, "properties.jsonl")).get(pid, set())
    aud_hits = [h for h in aud_all if h["file"] in anchored]
    tie_unavailable = bool(stage.get("unavailable")) or bool(errors) or bool(aud_hits)
    tie_broken = bool(tie_breaks)
    rc = 0
    replay_path = None
    vline = None
    if unknown_hits:
        h = unknown_hits[0]
        replay_path = write_replay(ctx, pid, "m%d" % h["code"], {
            "property": pid, "kind": "monitor", "monitor": [h["prop"], h["code"]], "meaning": MON_DOC.get((h["prop"], h["code"]), ""),
            "profile": h.get("profile"), "script": h["script"], "context": h.get("context", []),
            "how_to_replay": "./check replay <this file>", "other_hits": len(unknown_hits) - 1})
        vline = "VIOLATION property=%s replay=%s" % (pid, replay_path)
        rc = 1
    elif proof_broken or tie_broken or tie_unavailable:
        # a known finding explains a tie break only when every break sits on a known input; otherwise report
        d = tie_breaks[0] if tie_breaks else None
        payload = {"property": pid, "kind": "no-failing-input-found",
                   "proof": {"ok": proofs["ok"], "failed_obligations": proofs["failed"], "detail": proofs["detail"][-1200:]},
                   "correspondence": {"broken_on": d["what"] if d else None, "first_disagreement": d,
                                      "unavailable": stage.get("unavailable") or ("hidden state in a source file this property is anchored in: the model is a pure function of the arguments and the correspondence compares call by call, so a result that may depend on earlier calls is not covered (tools/purity.py)" if aud_hits else None),
                                      "hidden_state": aud_hits[:6],
                                      "errors": [e.get("error") for e in errors][:3],
                                      "n_disagreements": len(tie_breaks)},
                   "translator": binfo.get("gen_out", ""),
                   "note": "the monitors of this property found no failing input on the implementation; the property is "
                           "no longer shown to hold because the named theorem or correspondence no longer checks"}
        replay_path = write_replay(ctx, pid, "unproved", payload)
        vline = "VIOLATION property=%s replay=%s no-failing-input-found" % (pid, replay_path)
        rc = 1
    # ---- evidence
    cov_eval = sum(j.get("cov_n", {}).get(pid, 0) for j in jobs)
    cov_dist = sum(j.get("cov", {}).get(pid, 0) for j in jobs)
    samples = []
    for j in jobs:
        for k, v in j.get("samples", {}).items():
            if len(samples) < 3:
                samples.append({"job": j["name"], "case": v[:300]})
    for n in proofs["theorems"][:6]:
        samples.append({"obligation": n})
    dist = {}
    for j in jobs:
        for k, v in j.get("stats", {}).get("dist", {}).items():
            dist[k] = dist.get(k, 0) + v
    mon_tot = [0, 0, 0, 0]
    for j in jobs:
        if j.get("mon_totals"):
            mon_tot = [x + y for x, y in zip(mon_tot, j["mon_totals"])]
    if pid == "C11":
        cov_eval, cov_dist = special.get("comparisons", 0), special.get("states", 0)
        samples = [{"game": s} for s in special.get("samples", [])] + samples[-3:]
    if pid == "C17":
        cov_eval = special.get("pairs_checked", 0)
    if pid == "C18":
        cov_eval = special.get("conc", {}).get("expansions", 0) + 13
        cov_dist = special.get("conc", {}).get("shared_states", 0)
        samples = [{"state": special.get("conc", {}).get("sample", "")}] + samples[-3:]
    if pid == "C20":
        cov_eval = len(special.get("runs", [])) + len(special.get("probe", [])) + len(special.get("probe_debug", []))
        cov_dist = cov_eval
        samples = special.get("runs", [])[:3] + special.get("probe", [])[:3] + samples[-2:]
    ev = {
        "property_id": pid, "tier": ctx.tier, "seed": ctx.seed, "level": "proof",
        "coverage": {
            "obligations": max(proofs["obligations"], 1), "discharged": max(proofs["discharged"], 0) if proofs["ok"] else 0,
            "checker_cmd": "cd coq && make && coqc -Q gen Arimaa -Q model Arimaa -Q spec Arimaa -Q proofs Arimaa props/%s.v" % pid,
            "trusted_base": TRUSTED_BASE + (["standard-library axioms used: " + ", ".join(proofs["axioms"])] if proofs["axioms"] else
                                            ["Print Assumptions: closed under the global context for every theorem of props/%s.v" % pid]),
            "theorems": proofs["theorems"],
            "coqchk": proofs.get("coqchk"),
            "evaluations": max(cov_eval, 1), "distinct_nontrivial": max(cov_dist, 0),
            "rule": RULES.get(pid, ""),
            "samples": samples or [{"note": "no trace available"}],
            "traces_validated_against_impl": len([j for j in jobs if not j.get("error")]),
            "correspondence": {"trace_files": len(jobs), "items_compared": sum(j.get("items", 0) for j in jobs),
                               "disagreements_relevant": len(tie_breaks),
                               "disagreements_any": sum(j.get("ndiffs", 0) for j in jobs),
                               "local_tie_hits": len(tie_local)},
            "monitors": {"blocks": mon_tot[0], "transitions": mon_tot[1], "string_cases": mon_tot[2],
                         "hits_this_property": len(mon_hits), "known_finding_hits": len(mon_hits) - len(unknown_hits)},
            "generator_distribution": dist,
            "special": {k: v for k, v in special.items() if k not in ("mismatch_blocks", "samples", "sendsync_err")},
            "stage_key": stage.get("key"),
            "hidden_state_audit": {"constructs_in_source": len(aud_all), "in_files_this_property_is_anchored_in": aud_hits[:6]},
            "extraction_crosscheck": stage.get("extraction_crosscheck"),
            **({"panic_site_inventory": __import__("panic_sites").audit(ctx.repo, ctx.verif)} if pid == "C19" else {}),
        },
        "assumptions": ASSUMPTIONS.get(pid, []) + ["model tied to /repo by differential correspondence (not proof) over the cases counted above",
                                                   "data (masks, tables, enum orders, Unicode classes) regenerated from /repo by tools/gen_coq.py on this run"],
        "wall_s": round(time.time() - t0, 1),
        "violations": (1 if rc else 0),
    }
    os.makedirs(os.path.join(ctx.verif, "evidence"), exist_ok=True)
    with open(os.path.join(ctx.verif, "evidence", pid + ".json"), "w") as f:
        json.dump(ev, f, indent=1)
    for l in known_lines:
        print(l)
    print("%s proofs=%d/%d tie: %d files, %d relevant disagreements; monitors: %d hits (%d known); %.1fs" % (
        pid, proofs["discharged"], proofs["obligations"], len(jobs), len(tie_breaks), len(mon_hits), len(mon_hits) - len(unknown_hits),
        time.time() - t0))
    if vline:
        print(vline)
    return rc


def replay(ctx, path):
    """Re-runs a replay file against the current /repo: implementation trace, model replay, monitors."""
    payload = json.load(open(path))
    binfo = build_all(ctx)
    script = payload.get("script") or (payload.get("correspondence", {}).get("first_disagreement") or {}).get("script") or []
    script = [l for l in script if not l.startswith("#")]
    if not script:
        print("replay: this file names a theorem or correspondence, not an input:")
        print(json.dumps(payload.get("proof", {}), indent=1)[:1500])
        print(json.dumps(payload.get("correspondence", {}), indent=1)[:1500])
        return 0
    # make sure every state is watched
    d = os.path.join(ctx.cache, "replay")
    os.makedirs(d, exist_ok=True)
    sp = os.path.join(d, "script.txt")
    lines = []
    for l in script:
        if l.startswith("O "):
            continue
        if l.startswith("A ") or l.startswith("C "):
            if lines and (lines[-1].startswith("I ") or lines[-1].startswith("A ")):
                lines.append("O 0")
        lines.append(l)
    if lines and (lines[-1].startswith("I ") or lines[-1].startswith("A ")):
        lines.append("O 0")
    open(sp, "w").write("\n".join(lines) + "\n")
    prof = payload.get("profile") or "debug"
    hb = os.path.join(ctx.build, "harness", prof, "verif_harness")
    tr, mo, mon = os.path.join(d, "r.tr"), os.path.join(d, "r.mo"), os.path.join(d, "r.mon")
    rc, out, _ = sh([hb, "replay", sp, tr])
    mr = os.path.join(ctx.build, "ocaml", "modelrun")
    sh([mr, "replay", tr, mo])
    sh([mr, "monitor", tr, mon])
    hits = [l.strip() for l in open(mon) if l.startswith("F")]
    same = open(tr).read() == open(mo).read()
    print("replay %s profile=%s: implementation %s the model; monitor hits: %s" % (
        path, prof, "agrees with" if same else "DIFFERS from", ", ".join(hits) if hits else "none"))
    want = payload.get("monitor")
    if want and any(l.split()[1:3] == [str(want[0]), str(want[1])] for l in hits):
        print("REPRODUCED monitor %s: %s" % (want, payload.get("meaning", "")))
        return 1
    return 0 if not hits else 1


TRUSTED_BASE = [
    "Coq 8.16.1 kernel incl. vm_compute (no native_compute)",
    "tools/gen_coq.py (data translator: masks, Zobrist tables, enum orders, letter tables, Unicode classes, type structure)",
    "Extraction with ExtrOcamlBasic only (no Extract Constant / Extract Inductive of our own); N stays an inductive datatype",
    "ocaml/driver.ml (hex I/O, line protocol), harness/ (Rust generators, catch_unwind), tools/checklib.py (diff, verdict)",
    "hand-written Gallina model of engine.rs / zobrist.rs / display.rs / action.rs / square.rs / piece.rs / direction.rs: modelled, "
    "tied to the code by differential correspondence, not verified against the Rust text",
]

RULES = {
    "C01": "play-phase states reached through offered actions (random playouts, exhaustive local step trees to depth 4, repetition shuffles); distinct by board+side+step+status; non-trivial = a push/pull status is pending or an enemy piece is offered as mover",
    "C02": "transitions (state, offered action) of the same traces; distinct by board+side+step+action; captures counted separately under special",
    "C03": "transitions; non-trivial = turn-ending (pass or fourth step)",
    "C04": "is_terminal at watched states; distinct by state+answer; non-trivial at step 0 = a result is reported",
    "C05": "turn-ending transitions with their full hash history; distinct by state+history",
    "C06": "states with both action lists; non-trivial = at least one action withheld",
    "C07": "states with both lists and the summary queries; non-trivial = an action withheld, empty list, or mid-turn",
    "C08": "states with transposition hash; non-trivial = mid-turn or pending status",
    "C09": "setup states and placements: random orders, extreme orders, all prefixes of length <= k",
    "C10": "distinct boards printed and checked for well-formedness and view agreement",
    "C11": "games replayed mirrored, colour-swapped and both through the real crate; evaluations = compared observations, distinct = states",
    "C12": "play-phase states; non-trivial = status is not None",
    "C13": "states with previews for every rule-only action; non-trivial = some offered action captures",
    "C14": "states with piece_board_for_step for every i <= step; non-trivial = step >= 1",
    "C15": "distinct printed diagrams re-parsed, plus generated diagram strings (mutations, oversized numbers, Unicode digits, extra rows/columns)",
    "C16": "all strings up to length 4 over a 24-symbol alphabet through the four parsers (sharded), every value printed and re-parsed, 64 squares",
    "C17": "constructed single-piece boards x side x step and all 640 non-empty statuses; evaluations = unordered pairs compared for distinct hashes",
    "C18": "16 threads expanding shared states; sendsync client compiled by rustc",
    "C19": "every call on every watched reachable state under catch_unwind, debug (overflow checks) and release",
    "C20": "long capture-free games dropped on a 2 MiB stack; drop-depth probe of List for lengths 1e3..1e7",
}

ASSUMPTIONS = {
    "C03": ["move number + 1 < 2^64 at Silver turn ends (known finding F4)"],
    "C19": ["move number + 1 < 2^64 at Silver turn ends (known finding F4)"],
    "C06": ["no 64-bit Zobrist collision among the hashes compared in the state (known finding F6); checked exactly by monitor 6.2 on every visited state"],
    "C11": ["as C06 for the repetition clause"],
    "C18": ["meaning of Send/Sync, Arc and the hardware memory model are rustc/std's"],
    "C20": ["frame sizes, codegen and the 2 MiB default are measured, not proved"],
}

MON_DOC = {
    (1, 1): "rule-only list differs as a set from the model's list at the implementation's own state",
    (1, 2): "an action is listed twice",
    (1, 3): "pass offered <> (step >= 1 and no push pending)",
    (1, 5): "after this script the pending status differs from the model's on the same board/side/step and the rule-only list offered there is not the set of rule-book continuations (C01_automaton_iff_rulebook)",
    (1, 4): "offered moves differ from the square-level rules (spec/Rules.v spec_move_ok)",
    (2, 1): "board after the step differs from the model's board",
    (2, 2): "board after the step differs from the square-level rule (one piece moved one square, unsupported trap pieces removed)",
    (2, 3): "material increased", (2, 4): "a pass changed the board",
    (3, 1): "step counter above 3", (3, 2): "side / move number after the action", (3, 3): "per-turn record after the action",
    (4, 1): "is_terminal differs from the model", (4, 2): "is_terminal differs from the official win-condition order on squares",
    (4, 3): "result reported during setup",
    (5, 1): "an offered turn end left the board as at turn start", (5, 2): "an offered turn end created a third occurrence",
    (6, 1): "offered list is not the rule-only list filtered in order", (6, 2): "withheld set differs from the exact-board repetition rule",
    (6, 3): "forgetting history at a capture changed the verdict",
    (7, 1): "setup state with no action", (7, 2): "summary queries during setup", (7, 3): "has_move <> list non-empty",
    (7, 4): "can_pass(true) <> pass offered", (7, 5): "can_pass(false) <> pass in rule-only list", (7, 6): "no result yet no action",
    (7, 7): "mid-turn result <> empty list / not a loss for the mover",
    (8, 1): "transposition hash <> from-scratch hash", (8, 2): "from_piece_board differs from the model", (8, 3): "incremental hash <> from-scratch hash",
    (8, 4): "recorded history hashes <> from-scratch hashes of the exact turn-start positions", (8, 5): "turn-start hash <> from-scratch hash",
    (9, 1): "offered placements", (9, 2): "setup lists differ", (9, 3): "placement square / content", (9, 4): "hand-over after the 16th placement",
    (10, 1): "board views inconsistent (not well-formed)", (10, 2): "printed diagram <> cells", (10, 3): "material above the complement",
    (10, 4): "unsupported piece left on a trap",
    (11, 1): "symmetric image of the game behaves differently",
    (12, 1): "status after the step <> rule", (12, 2): "status pending at turn start", (12, 3): "push pending but no completion offered",
    (12, 4): "while a push is pending the rule-only list is not exactly the completions of the square-level rule",
    (13, 1): "preview differs from the model", (13, 2): "a step removed more than one piece", (13, 3): "model preview <> removed piece",
    (13, 4): "implementation's preview <> piece actually removed",
    (14, 1): "piece_board_for_step <> recorded boards", (14, 2): "recorded boards not extended by the current board", (14, 3): "clone_from onto another state differs from the source state",
    (15, 1): "re-parsed state differs", (15, 2): "re-parsed state not a clean turn start", (15, 3): "re-printed diagram differs",
    (15, 4): "hash / equality after re-parse", (15, 5): "parser panicked", (15, 6): "printed diagram rejected", (15, 7): "parse outcome differs from the model",
    (16, 3): "accepted text is not the printed form", (16, 4): "printed form differs", (16, 5): "square conversions", (16, 7): "parse outcome differs from the model",
    (16, 8): "printed form does not parse back",
    (17, 1): "two states differing in one hashed feature share a transposition hash",
    (18, 1): "Send + Sync client does not compile", (18, 2): "concurrent expansion differs",
    (19, 1): "a public call panicked on a reachable state", (19, 65): "take_action panicked on an offered action", (19, 83): "state accessors panicked",
    (20, 1): "stack overflow / abort when dropping a long game", (20, 2): "drop depth grows with length",
}
