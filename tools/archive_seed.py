#!/usr/bin/env python3
"""archive_seed.py <tag> <breaks> <needs> <detected_by> <check-id>: copy a confirmed seeded defect from /tmp/wt_<tag> to seeded/<tag>/ and drop the worktree"""
import json, os, shutil, subprocess, sys
t, breaks, needs, det, chk = sys.argv[1:6]
d = "/verif/seeded/%s" % t
wt = "/tmp/wt_%s" % t
os.makedirs(d, exist_ok=True)
shutil.copy(wt + "/patch.diff", d)
shutil.copy(wt + "/tests/demo_%s.rs" % t, d)
if os.path.exists(wt + "/SEED_NOTES.md"):
    shutil.copy(wt + "/SEED_NOTES.md", d)
json.dump({"id": t, "breaks": breaks, "needs_to_manifest": needs,
           "author": "independent sub-agent given only the property text and a scratch worktree",
           "confirmed": "tools/seedtest.sh %s ...: existing suite green with the change (120 unit tests), demo fails with the change and passes without it (re-run by me in the worktree)" % t,
           "detected_by": det,
           "how_to_rerun": "git -C /repo apply /verif/seeded/%s/patch.diff && ./check %s ; git -C /repo checkout -- ." % (t, chk)},
          open(d + "/meta.json", "w"), indent=1)
subprocess.call(["git", "-C", "/repo", "worktree", "remove", "--force", wt])
subprocess.call(["git", "-C", "/repo", "worktree", "prune"])
print("archived", t)
