#!/usr/bin/env python3
"""Builds corpus/*.script (replayable cases in the trace protocol) from the findings files.
Run by hand when a finding is added; the scripts are committed."""
import os, re, sys
V = os.path.dirname(os.path.dirname(os.path.abspath(__file__)))

def enc(a):
    if a == "p":
        return 0
    if len(a) == 1:
        return 1 + "rcdhme".index(a.lower())
    f, r, d = ord(a[0]) - 97, int(a[1]), "nesw".index(a[2])
    return 16 + (f + 8 * (8 - r)) * 4 + d

def script(name, diagram, actions, watch_from=0):
    out = ["C %s 0 1" % name, "I 1 " + " ".join("%x" % ord(c) for c in diagram)]
    for i, a in enumerate(actions):
        out.append("O 0" if i >= watch_from else "O 2")
        out.append("A %x" % enc(a))
    out.append("O 0")
    return "\n".join(out) + "\n"

def f6():
    t = open(os.path.join(V, "findings", "F6_c06_hash_collision.txt")).read()
    a = t.index("\nA:\n") + 4
    b = t.index("\nB:\n")
    diagram = t[a:b] + "\n"
    acts = re.search(r"^ACTIONS (.*)$", t, flags=re.M).group(1).split()
    return script("corpus-F6", diagram, acts)

def f4():
    d = """18446744073709551615s
 +-----------------+
8| d               |
7|                 |
6|     x     x     |
5|         r       |
4|         R       |
3|     x     x     |
2|                 |
1|               D |
 +-----------------+
   a b c d e f g h
"""
    return script("corpus-F4", d, ["a8s", "p"])

def norm(d):
    # diagrams copied from Rust test sources: strip the common indentation, keep the text otherwise
    lines = [l.rstrip() for l in d.strip("\n").split("\n")]
    return "\n".join(l.strip() if i == 0 else l[min(len(x) - len(x.lstrip()) for x in lines[1:]) - 1:] for i, l in enumerate(lines)) + "\n"

SEED_D = """
5g
 +-----------------+
8|               d |
7|     r         r |
6|   C E     x     |
5|                 |
4|                 |
3|     x     x     |
2| R               |
1| C               |
 +-----------------+
   a b c d e f g h
"""
SHUF = ["h8w", "p", "a1e", "p", "g8e", "p", "b1w"]
SEED_C1 = """
5g
 +-----------------+
8|                 |
7|         e       |
6|     x     x     |
5|                 |
4|                 |
3| r   x     x     |
2| R r           d |
1|               C |
 +-----------------+
   a b c d e f g h
"""
SEED_C2 = """
5s
 +-----------------+
8| c               |
7| D           R r |
6|     x     x   R |
5|                 |
4|         E       |
3|     x     x     |
2|                 |
1|                 |
 +-----------------+
   a b c d e f g h
"""
# regression corpus distilled from seeded defects (seeded/<id>): a capture on the fourth step followed by
# two returns to the post-capture position; immobilised positions whose only free neighbours are behind rabbits
open(os.path.join(V, "corpus", "seed_d.script"), "w").write(
    script("corpus-seed-d", SEED_D.lstrip("\n"), ["a2n", "a3n", "c6s", "c7s"] + SHUF + ["p"] + SHUF + ["p"]))
open(os.path.join(V, "corpus", "seed_c.script"), "w").write(
    script("corpus-seed-c1", SEED_C1.lstrip("\n"), []) + script("corpus-seed-c2", SEED_C2.lstrip("\n"), []))
open(os.path.join(V, "corpus", "F6.script"), "w").write(f6())
open(os.path.join(V, "corpus", "F4.script"), "w").write(f4())
print("corpus written")
