#!/bin/bash
# the behaviour-preserving refactorings must stay silent: apply each, run all checks, revert
cd /verif
for f in seeded/n_harmless_refactors/refactor_*.diff; do
  if ! git -C /repo apply /verif/$f 2>/dev/null; then echo "$f: patch does not apply"; continue; fi
  n=$(./check all 2>&1 | grep -c VIOLATION)
  git -C /repo checkout -- .
  echo "$f violations=$n"
done
