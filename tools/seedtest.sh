#!/bin/bash
# usage: seedtest.sh <tag> <property>...   (worktree /tmp/wt_<tag> prepared by a sub-agent)
# 1. confirms the sub-agent's claims in its worktree (suite green with the change, demo fails with / passes without);
# 2. applies the patch to /repo, runs the named checks, reverts /repo.
tag=$1; shift
wt=/tmp/wt_$tag
export CARGO_TARGET_DIR=$wt/target CARGO_NET_OFFLINE=true
cd $wt || exit 2
git -C $wt diff -- src > $wt/patch.diff
echo "== suite with change"; cargo test --offline --lib 2>&1 | grep "test result" | head -2
echo "== demo with change (must fail)"; cargo test --offline --test demo_$tag 2>&1 | grep "test result\|error\[" | head -3
git checkout -q -- src
echo "== demo without change (must pass)"; cargo test --offline --test demo_$tag 2>&1 | grep "test result\|error\[" | head -3
git apply $wt/patch.diff
cd /verif
git -C /repo apply $wt/patch.diff || { echo "patch does not apply"; exit 2; }
for p in "$@"; do ./check $p 2>&1 | grep -v "^KNOWN" | tail -2; done
git -C /repo checkout -- .
git -C /repo status --short | head -3
