#!/usr/bin/env python3
"""Writes MANIFEST.json from the property files present under coq/props and the texts in tools/manifest_texts.json."""
import json, os, sys
V = os.path.dirname(os.path.dirname(os.path.abspath(__file__)))
sys.path.insert(0, os.path.join(V, "tools"))
import checklib
texts = json.load(open(os.path.join(V, "tools", "manifest_texts.json")))
checks, na = [], []
for pid in checklib.PROPS:
    t = texts.get(pid, {})
    if os.path.exists(os.path.join(V, "coq", "props", pid + ".v")) and not t.get("not_applicable"):
        checks.append({
            "property_id": pid,
            "quick_cmd": "./check %s --tier quick" % pid,
            "thorough_cmd": "./check %s --tier thorough" % pid,
            "evidence_file": "/verif/evidence/%s.json" % pid,
            "replay_cmd_template": "./check replay {path}",
            "engine": "coq-model+correspondence",
            "level_claimed": {"category": "proof", "text": t.get("level", ""), "design_ref": t.get("design_ref", "DESIGN.md section 4, " + pid)},
            "level_note": t.get("note", ""),
            "technique": t.get("technique", "Coq 8.16 theorems about a Gallina model; model tied to /repo by regenerated data + differential correspondence; monitors as search"),
        })
    else:
        na.append({"property_id": pid, "reason": t.get("not_applicable") or "theorems for this property are not written yet; its correspondence and monitors already run (./check %s) but it is not claimed until a property file exists" % pid})
m = {
    "version": 1,
    "setup_cmd": "./check setup",
    "hooks": {
        "guard": "verif_hooks",
        "enable": "cargo feature: the harness depends on arimaa_engine_step with features = [\"verif_hooks\"] (harness/Cargo.toml)",
        "baseline_off_cmd": "cd /repo && cargo test --workspace --no-fail-fast --offline",
        "source_commits": ["83bdabb", "fda6844", "9464eef"],
        "add_only": True,
    },
    "engines": [
        {"name": "coq-model+correspondence", "path": "/verif/coq, /verif/harness, /verif/ocaml, /verif/tools",
         "serves_properties": [c["property_id"] for c in checks],
         "kind_free_text": "Gallina model of the crate with Coq theorems per property (coq/props), data regenerated from /repo by tools/gen_coq.py, "
                           "differential correspondence between the extracted model and the real crate, property monitors as the search for failing inputs"}
    ],
    "checks": checks,
    "not_applicable": na,
    "notes": "fix: commits in /repo: 382635e (C15), 9119984 (C16), 6afde1a (C20); known findings in known_findings.json (F4: C03/C19, F6: C06/C11).",
}
json.dump(m, open(os.path.join(V, "MANIFEST.json"), "w"), indent=1)
print("MANIFEST: %d checks, %d not claimed" % (len(checks), len(na)))
