#!/usr/bin/env python3
"""Data translator: Rust literals / declarations of /repo -> Coq (coq/gen/*.v).

Only *data* is translated: integer constants, constant arrays, enum declaration order,
`ALL` arrays, `match` arms of the shape `Variant => literal`, the regex literal of
display.rs, the Unicode range tables of the vendored regex-syntax crate named in
Cargo.lock, and the type structure of the crate (field types, receivers of pub fns,
Drop impls).  Anything the tokenizer does not understand raises TieBroken: the caller
reports "tie broken", nothing is skipped silently.

Files are rewritten only when their content changes (so `make` stays incremental).
usage: gen_coq.py <repo> <outdir>
"""
import glob
import os
import re
import sys


class TieBroken(Exception):
    pass


def read(p):
    with open(p, encoding="utf-8") as f:
        return f.read()


def strip_comments(src):
    # remove // comments and /* */ comments, but keep string/char literals intact
    out = []
    i, n = 0, len(src)
    while i < n:
        c = src[i]
        if src.startswith("//", i):
            j = src.find("\n", i)
            i = n if j < 0 else j
        elif src.startswith("/*", i):
            depth, i = 1, i + 2
            while i < n and depth:
                if src.startswith("/*", i):
                    depth += 1; i += 2
                elif src.startswith("*/", i):
                    depth -= 1; i += 2
                else:
                    i += 1
        elif c == '"':
            j = i + 1
            while j < n and src[j] != '"':
                j += 2 if src[j] == "\\" else 1
            out.append(src[i:j + 1]); i = j + 1
        elif c == "r" and i + 1 < n and src[i + 1] == '"' and (i == 0 or not (src[i - 1].isalnum() or src[i - 1] == "_")):
            j = src.find('"', i + 2)
            out.append(src[i:j + 1]); i = j + 1
        elif c == "'":
            # char literal or lifetime
            m = re.match(r"'(\\u\{[0-9a-fA-F]+\}|\\.|[^\\'])'", src[i:])
            if m:
                out.append(m.group(0)); i += len(m.group(0))
            else:
                out.append(c); i += 1
        else:
            out.append(c); i += 1
    return "".join(out)


def int_lit(tok, env=None):
    t = tok.strip().replace("_", "")
    t = re.sub(r"(u8|u16|u32|u64|u128|usize|i32|i64)$", "", t)
    try:
        if t.startswith("0b"):
            return int(t[2:], 2)
        if t.startswith("0x"):
            return int(t[2:], 16)
        if t.startswith("0o"):
            return int(t[2:], 8)
        return int(t, 10)
    except ValueError:
        if env is not None and tok.strip() in env:
            return env[tok.strip()]
        raise TieBroken("not an integer literal: %r" % tok)


def parse_consts(src, ty_pat=r"u64|usize|u8"):
    """all `const NAME: ty = <int literal or NAME>;` in order"""
    env = {}
    for m in re.finditer(r"\bconst\s+([A-Z0-9_]+)\s*:\s*(?:%s)\s*=\s*([^;\[\]]+);" % ty_pat, src):
        env[m.group(1)] = int_lit(m.group(2), env)
    return env


def parse_array(src, name):
    m = re.search(r"\bconst\s+%s\s*:\s*([^=]+)=\s*" % name, src)
    if not m:
        raise TieBroken("array constant %s not found" % name)
    i = m.end()
    if src[i] != "[":
        raise TieBroken("array constant %s: expected '['" % name)

    def parse(i):
        assert src[i] == "["
        i += 1
        items = []
        while True:
            while src[i].isspace() or src[i] == ",":
                i += 1
            if src[i] == "]":
                return items, i + 1
            if src[i] == "[":
                sub, i = parse(i)
                items.append(sub)
            else:
                j = i
                while src[j] not in ",]":
                    j += 1
                items.append(int_lit(src[i:j]))
                i = j

    val, j = parse(i)
    return val


def enum_variants(src, name):
    m = re.search(r"\benum\s+%s\s*\{([^}]*)\}" % name, src)
    if not m:
        raise TieBroken("enum %s not found" % name)
    vs = []
    for part in m.group(1).split(","):
        part = part.strip()
        if not part:
            continue
        mm = re.match(r"^([A-Z][A-Za-z0-9]*)$", part)
        if not mm:
            raise TieBroken("enum %s: variant %r is not a plain identifier" % (name, part))
        vs.append(mm.group(1))
    return vs


def all_array(src, ty):
    m = re.search(r"\bconst\s+ALL\s*:\s*\[\s*%s\s*;\s*(\d+)\s*\]\s*=\s*\[([^\]]*)\]" % ty, src)
    if not m:
        raise TieBroken("%s::ALL not found" % ty)
    items = [x.strip() for x in m.group(2).split(",") if x.strip()]
    out = []
    for it in items:
        mm = re.match(r"^%s::([A-Za-z0-9]+)$" % ty, it)
        if not mm:
            raise TieBroken("%s::ALL item %r" % (ty, it))
        out.append(mm.group(1))
    if len(out) != int(m.group(1)):
        raise TieBroken("%s::ALL length mismatch" % ty)
    return out


def find_block(src, start_pat):
    """return the brace-delimited block following the first match of start_pat"""
    m = re.search(start_pat, src)
    if not m:
        raise TieBroken("pattern not found: %s" % start_pat)
    i = src.find("{", m.end() - 1)
    depth, j = 0, i
    while True:
        if src[j] == "{":
            depth += 1
        elif src[j] == "}":
            depth -= 1
            if depth == 0:
                return src[i + 1:j], j + 1
        elif src[j] == '"':
            j += 1
            while src[j] != '"':
                j += 2 if src[j] == "\\" else 1
        elif src[j] == "'" and re.match(r"'(\\.|[^\\'])'", src[j:]):
            j += len(re.match(r"'(\\.|[^\\'])'", src[j:]).group(0)) - 1
        j += 1


def match_arms(block, ty):
    """arms `Ty::V => rhs,` of the first `match` inside block -> list of (variant, rhs)"""
    body, _ = find_block(block, r"\bmatch\b[^{]*\{")
    arms = []
    for m in re.finditer(r"%s::([A-Za-z0-9]+)\s*=>\s*([^,\n]+),?" % ty, body):
        arms.append((m.group(1), m.group(2).strip().rstrip(",")))
    if not arms:
        raise TieBroken("no match arms for %s" % ty)
    return arms


def char_or_str(lit):
    m = re.match(r"""^'(\\.|[^\\'])'$""", lit) or re.match(r'^"(\\.|[^\\"])"$', lit)
    if not m:
        raise TieBroken("expected one-character literal, got %r" % lit)
    s = m.group(1)
    if s.startswith("\\"):
        s = {"\\n": "\n", "\\t": "\t", "\\\\": "\\", "\\'": "'", '\\"': '"'}.get(s)
        if s is None:
            raise TieBroken("escape %r" % lit)
    return ord(s)


def from_str_arms(block, ty):
    """arms `'X' | 'x' => Some(Ty::V),` -> list of (codepoint, variant)"""
    body, _ = find_block(block, r"\bmatch\b[^{]*\{")
    out = []
    for m in re.finditer(r"((?:'(?:\\.|[^\\'])'\s*\|?\s*)+)=>\s*Some\(\s*%s::([A-Za-z0-9]+)\s*\)" % ty, body):
        for c in re.findall(r"'(?:\\.|[^\\'])'", m.group(1)):
            out.append((char_or_str(c), m.group(2)))
    if not out:
        raise TieBroken("no FromStr arms for %s" % ty)
    if not re.search(r"_\s*=>\s*None", body):
        raise TieBroken("FromStr for %s: expected a `_ => None` arm" % ty)
    return out


def coq_list(xs, per_line=4, indent="  "):
    if not xs:
        return "[]"
    lines = []
    for i in range(0, len(xs), per_line):
        lines.append(indent + "; ".join(xs[i:i + per_line]))
    return "[\n" + ";\n".join(lines) + " ]"


HEADER = "(* GENERATED by tools/gen_coq.py from %s -- do not edit; regenerated on every check run *)\n"


def gen_masks(repo):
    src = strip_comments(read(os.path.join(repo, "src/bit_mask.rs")))
    env = parse_consts(src)
    need = ["LEFT_COLUMN_MASK", "RIGHT_COLUMN_MASK", "TOP_ROW_MASK", "BOTTOM_ROW_MASK",
            "P1_PLACEMENT_MASK", "P2_PLACEMENT_MASK", "LAST_P1_PLACEMENT_MASK",
            "LAST_P2_PLACEMENT_MASK", "TRAP_MASK", "P1_OBJECTIVE_MASK", "P2_OBJECTIVE_MASK"]
    for k in need:
        if k not in env:
            raise TieBroken("bit_mask.rs: constant %s not found" % k)
    csrc = strip_comments(read(os.path.join(repo, "src/constants.rs")))
    cenv = parse_consts(csrc)
    for k in ["BOARD_WIDTH", "BOARD_HEIGHT"]:
        if k not in cenv:
            raise TieBroken("constants.rs: %s not found" % k)
    ssrc = strip_comments(read(os.path.join(repo, "src/square.rs")))
    senv = parse_consts(ssrc)
    if "ASCII_LETTER_A" not in senv:
        raise TieBroken("square.rs: ASCII_LETTER_A not found")
    # the macros of bit_manip.rs: which constant / which shift each one uses
    msrc = strip_comments(read(os.path.join(repo, "src/bit_manip.rs")))
    macros = {}
    for m in re.finditer(r"macro_rules!\s*(\w+)\s*\{\s*\(\$exp:expr\)\s*=>\s*\{([^}]*)\}\s*;?\s*\}", msrc):
        macros[m.group(1)] = " ".join(m.group(2).split())
    expect = {
        "shift_up": r"$exp >> $crate::constants::BOARD_WIDTH",
        "shift_down": r"$exp << $crate::constants::BOARD_WIDTH",
        "shift_left": r"$exp >> 1",
        "shift_right": r"$exp << 1",
        "shift_pieces_up": r"shift_up!($exp & !$crate::bit_mask::TOP_ROW_MASK)",
        "shift_pieces_right": r"shift_right!($exp & !$crate::bit_mask::RIGHT_COLUMN_MASK)",
        "shift_pieces_down": r"shift_down!($exp & !$crate::bit_mask::BOTTOM_ROW_MASK)",
        "shift_pieces_left": r"shift_left!($exp & !$crate::bit_mask::LEFT_COLUMN_MASK)",
    }
    out = [HEADER % "src/bit_mask.rs, src/constants.rs, src/square.rs, src/bit_manip.rs (macros)",
           "From Coq Require Import NArith.\nOpen Scope N_scope.\n"]
    for k in need:
        out.append("Definition %s : N := %d." % (k, env[k]))
    for k in ["BOARD_WIDTH", "BOARD_HEIGHT"]:
        out.append("Definition %s : N := %d." % (k, cenv[k]))
    out.append("Definition ASCII_LETTER_A : N := %d." % senv["ASCII_LETTER_A"])
    # shift macros: direction (true = towards higher bit index = `<<`), amount, and excluded mask
    out.append("\n(* shift macros of bit_manip.rs: (is_shl, amount, mask cleared before shifting) *)")
    for name in ["up", "right", "down", "left"]:
        s = macros.get("shift_" + name)
        sp = macros.get("shift_pieces_" + name)
        if s is None or sp is None:
            raise TieBroken("bit_manip.rs: macro shift_%s / shift_pieces_%s not found" % (name, name))
        m = re.match(r"^\$exp (<<|>>) (\$crate::constants::BOARD_WIDTH|\d+)$", s)
        if not m:
            raise TieBroken("bit_manip.rs: macro shift_%s has unexpected body %r" % (name, s))
        amount = "BOARD_WIDTH" if "BOARD_WIDTH" in m.group(2) else m.group(2)
        m2 = re.match(r"^shift_(\w+)!\(\$exp & !\$crate::bit_mask::(\w+)\)$", sp)
        if not m2:
            raise TieBroken("bit_manip.rs: macro shift_pieces_%s has unexpected body %r" % (name, sp))
        inner = m2.group(1)
        if inner not in ("up", "right", "down", "left"):
            raise TieBroken("bit_manip.rs: shift_pieces_%s calls unknown shift_%s" % (name, inner))
        if m2.group(2) not in env:
            raise TieBroken("bit_manip.rs: shift_pieces_%s uses unknown mask %s" % (name, m2.group(2)))
        out.append("Definition SHIFT_%s : bool * N := (%s, %s)." % (name.upper(), "true" if m.group(1) == "<<" else "false", amount))
        out.append("Definition SHIFT_PIECES_%s_INNER : bool * N := SHIFT_%s." % (name.upper(), inner.upper()))
        out.append("Definition SHIFT_PIECES_%s_MASK : N := %s." % (name.upper(), m2.group(2)))
    # SHIFT_PIECES_x_INNER refers to SHIFT_y which may be defined later: emit in two passes
    body = "\n".join(out)
    # reorder: all SHIFT_<dir> first
    lines = body.split("\n")
    first = [l for l in lines if re.match(r"^Definition SHIFT_(UP|RIGHT|DOWN|LEFT) ", l)]
    rest = [l for l in lines if l not in first]
    idx = next(i for i, l in enumerate(rest) if l.startswith("(* shift macros"))
    rest[idx + 1:idx + 1] = first
    return "\n".join(rest) + "\n"


def gen_zobrist(repo):
    src = strip_comments(read(os.path.join(repo, "src/zobrist_values.rs")))
    env = parse_consts(src)
    for k in ["INITIAL", "PLAYER_TO_MOVE"]:
        if k not in env:
            raise TieBroken("zobrist_values.rs: %s not found" % k)
    out = [HEADER % "src/zobrist_values.rs",
           "From Coq Require Import NArith List.\nImport ListNotations.\nOpen Scope N_scope.\n"]
    out.append("Definition INITIAL : N := %d." % env["INITIAL"])
    out.append("Definition PLAYER_TO_MOVE : N := %d." % env["PLAYER_TO_MOVE"])
    steps = parse_array(src, "STEP_VALUES")
    out.append("Definition STEP_VALUES : list N := %s." % coq_list([str(x) for x in steps], 2))
    for name in ["SQUARE_VALUES", "PUSH_VALUES", "POSSIBLE_PULL_VALUES"]:
        arr = parse_array(src, name)
        rows = [coq_list([str(x) for x in row], 3, "    ") for row in arr]
        out.append("Definition %s : list (list N) := [\n  %s ]." % (name, ";\n  ".join(rows)))
    return "\n".join(out) + "\n"


def gen_enums(repo):
    psrc = strip_comments(read(os.path.join(repo, "src/piece.rs")))
    dsrc = strip_comments(read(os.path.join(repo, "src/direction.rs")))
    zsrc = strip_comments(read(os.path.join(repo, "src/zobrist.rs")))
    ysrc = strip_comments(read(os.path.join(repo, "src/display.rs")))
    pieces = enum_variants(psrc, "Piece")
    dirs = enum_variants(dsrc, "Direction")
    if sorted(pieces) != sorted(["Rabbit", "Cat", "Dog", "Horse", "Camel", "Elephant"]):
        raise TieBroken("enum Piece has unexpected variants %r" % pieces)
    if sorted(dirs) != sorted(["Up", "Right", "Down", "Left"]):
        raise TieBroken("enum Direction has unexpected variants %r" % dirs)
    m = re.search(r"#\[derive\(([^)]*)\)\]\s*pub enum Piece", psrc)
    if not m or "PartialOrd" not in m.group(1) or "Ord" not in m.group(1):
        raise TieBroken("enum Piece no longer derives PartialOrd/Ord (strength order is the declaration order)")
    out = [HEADER % "src/piece.rs, src/direction.rs, src/zobrist.rs, src/display.rs",
           "From Coq Require Import NArith List.\nFrom Arimaa Require Import Types.\nImport ListNotations.\nOpen Scope N_scope.\n"]
    out.append("(* derive(PartialOrd, Ord) on Piece compares declaration positions *)")
    out.append("Definition piece_rank (k : piece) : N :=\n  match k with %s end." %
               " | ".join("%s => %d" % (v, i) for i, v in enumerate(pieces)))
    out.append("Definition dir_rank (d : dir) : N :=\n  match d with %s end." %
               " | ".join("%s => %d" % (v, i) for i, v in enumerate(dirs)))
    out.append("Definition PIECE_ALL : list piece := [%s]." % "; ".join(all_array(psrc, "Piece")))
    out.append("Definition DIR_ALL : list dir := [%s]." % "; ".join(all_array(dsrc, "Direction")))

    # Display letters
    blk, _ = find_block(psrc, r"impl\s+fmt::Display\s+for\s+Piece\s*\{")
    arms = dict(match_arms(blk, "Piece"))
    if sorted(arms) != sorted(pieces):
        raise TieBroken("Display for Piece does not cover all variants")
    out.append("Definition piece_letter (k : piece) : N :=\n  match k with %s end." %
               " | ".join("%s => %d" % (v, char_or_str(arms[v])) for v in pieces))
    blk, _ = find_block(dsrc, r"impl\s+fmt::Display\s+for\s+Direction\s*\{")
    arms = dict(match_arms(blk, "Direction"))
    if sorted(arms) != sorted(dirs):
        raise TieBroken("Display for Direction does not cover all variants")
    out.append("Definition dir_letter (d : dir) : N :=\n  match d with %s end." %
               " | ".join("%s => %d" % (v, char_or_str(arms[v])) for v in dirs))
    # FromStr tables
    blk, _ = find_block(psrc, r"impl\s+FromStr\s+for\s+Piece\s*\{")
    tab = from_str_arms(blk, "Piece")
    out.append("Definition piece_of_letter_table : list (N * piece) := [%s]." %
               "; ".join("(%d, %s)" % (c, v) for c, v in tab))
    blk, _ = find_block(dsrc, r"impl\s+FromStr\s+for\s+Direction\s*\{")
    tab = from_str_arms(blk, "Direction")
    out.append("Definition dir_of_letter_table : list (N * dir) := [%s]." %
               "; ".join("(%d, %s)" % (c, v) for c, v in tab))
    # display.rs tables
    blk, _ = find_block(ysrc, r"fn\s+convert_char_to_piece\s*\(")
    tab = from_str_arms(blk, "Piece")
    if not re.search(r"let\s+is_p1\s*=\s*c\.is_uppercase\(\)\s*;", blk):
        raise TieBroken("convert_char_to_piece: `is_p1 = c.is_uppercase()` not found")
    out.append("Definition diagram_piece_of_letter_table : list (N * piece) := [%s]." %
               "; ".join("(%d, %s)" % (c, v) for c, v in tab))
    blk, _ = find_block(ysrc, r"fn\s+convert_piece_to_letter\s*\(")
    arms = dict(match_arms(blk, "Piece"))
    if sorted(arms) != sorted(pieces):
        raise TieBroken("convert_piece_to_letter does not cover all variants")
    if not re.search(r"if\s+is_p1\s*\{\s*letter\.to_string\(\)\s*\}\s*else\s*\{\s*letter\.to_lowercase\(\)\s*\}", blk):
        raise TieBroken("convert_piece_to_letter: case selection changed")
    out.append("Definition diagram_upper_letter (k : piece) : N :=\n  match k with %s end." %
               " | ".join("%s => %d" % (v, char_or_str(arms[v])) for v in pieces))
    m = re.search(r"else\s+if\s+((?:idx\s*==\s*\d+\s*(?:\|\|)?\s*)+)\{\s*\"x\"", ysrc)
    if not m:
        raise TieBroken("display.rs: trap marker indices not found")
    traps = [int(x) for x in re.findall(r"idx\s*==\s*(\d+)", m.group(1))]
    out.append("Definition DIAGRAM_TRAP_INDICES : list N := [%s]." % "; ".join(map(str, traps)))
    m = re.search(r'regex::Regex::new\(r"([^"]*)"\)', ysrc)
    if not m:
        raise TieBroken("display.rs: regex literal not found")
    rx = m.group(1)
    out.append("Definition DIAGRAM_HEADER_REGEX : list N := [%s]." % "; ".join(str(ord(c)) for c in rx))
    m = re.search(r"map_or\(\s*\(\s*(\d+)\s*,\s*(true|false)\s*\)", ysrc) or \
        re.search(r"None\s*=>\s*\(\s*(\d+)\s*,\s*(true|false)\s*\)", ysrc)
    if not m:
        raise TieBroken("display.rs: default (move number, side) not found")
    out.append("Definition DIAGRAM_DEFAULT_MOVE : N := %s." % m.group(1))
    out.append("Definition DIAGRAM_DEFAULT_P1 : bool := %s." % m.group(2))
    neg = re.findall(r'as_str\(\)\s*!=\s*"(.)"', ysrc)
    if not neg:
        raise TieBroken("display.rs: silver side letters not found")
    out.append("Definition DIAGRAM_SILVER_LETTERS : list N := [%s]." % "; ".join(str(ord(c)) for c in neg))

    # zobrist index maps
    def idx_map(fn, allow_panic):
        blk, _ = find_block(zsrc, r"fn\s+%s\s*\(" % fn)
        arms = dict(match_arms(blk, "Piece"))
        if sorted(arms) != sorted(pieces):
            raise TieBroken("%s: piece_idx map does not cover all variants" % fn)
        items = []
        for v in pieces:
            rhs = arms[v]
            if rhs.startswith("panic!"):
                if not allow_panic:
                    raise TieBroken("%s: unexpected panic arm" % fn)
                items.append("%s => None" % v)
            else:
                items.append("%s => Some %d" % (v, int_lit(rhs)))
        table = re.search(r"\b([A-Z_]+)\[piece_idx\]\[square\.index\(\)\]", blk)
        if not table:
            raise TieBroken("%s: table lookup not found" % fn)
        return items, table.group(1), blk

    items, table, blk = idx_map("piece_value", False)
    if table != "SQUARE_VALUES":
        raise TieBroken("piece_value reads %s" % table)
    m = re.search(r"piece_idx\s*\+\s*if\s+is_p1\s*\{\s*(\d+)\s*\}\s*else\s*\{\s*(\d+)\s*\}", blk)
    if not m:
        raise TieBroken("piece_value: colour offset not found")
    out.append("Definition square_piece_idx (k : piece) : option N :=\n  match k with %s end." % " | ".join(items))
    out.append("Definition SQUARE_P1_OFFSET : N := %s.\nDefinition SQUARE_P2_OFFSET : N := %s." % (m.group(1), m.group(2)))
    items, table, _ = idx_map("push_piece_value", True)
    if table != "PUSH_VALUES":
        raise TieBroken("push_piece_value reads %s" % table)
    out.append("Definition push_piece_idx (k : piece) : option N :=\n  match k with %s end." % " | ".join(items))
    items, table, _ = idx_map("pull_piece_value", True)
    if table != "POSSIBLE_PULL_VALUES":
        raise TieBroken("pull_piece_value reads %s" % table)
    out.append("Definition pull_piece_idx (k : piece) : option N :=\n  match k with %s end." % " | ".join(items))
    return "\n".join(out) + "\n"


def char_lit_cp(lit):
    m = re.match(r"^'\\u\{([0-9a-fA-F]+)\}'$", lit)
    if m:
        return int(m.group(1), 16)
    esc = {"'\\t'": 9, "'\\n'": 10, "'\\r'": 13, "'\\''": 39, "'\\\\'": 92, "'\\0'": 0}
    if lit in esc:
        return esc[lit]
    m = re.match(r"^'(.)'$", lit, re.S)
    if m:
        return ord(m.group(1))
    raise TieBroken("char literal %r" % lit)


def gen_unicode(repo):
    lock = read(os.path.join(repo, "Cargo.lock"))
    m = re.search(r'name = "regex-syntax"\s*\nversion = "([^"]+)"', lock)
    if not m:
        raise TieBroken("Cargo.lock: regex-syntax not found")
    ver = m.group(1)
    cands = glob.glob(os.path.expanduser("~/.cargo/registry/src/*/regex-syntax-%s" % ver))
    if not cands:
        raise TieBroken("vendored regex-syntax-%s not found in the cargo registry" % ver)
    base = cands[0]

    def table(fname, name):
        src = read(os.path.join(base, "src/unicode_tables", fname))
        mm = re.search(r"pub const %s: &'static \[\(char, char\)\] = &\[(.*?)\];" % name, src, re.S)
        if not mm:
            raise TieBroken("%s: table %s not found" % (fname, name))
        rs = []
        for a, b in re.findall(r"\(\s*('(?:\\u\{[0-9a-fA-F]+\}|\\.|[^\\'])')\s*,\s*('(?:\\u\{[0-9a-fA-F]+\}|\\.|[^\\'])')\s*\)", mm.group(1)):
            rs.append((char_lit_cp(a), char_lit_cp(b)))
        if not rs:
            raise TieBroken("%s: empty table" % fname)
        return rs

    ws = table("perl_space.rs", "WHITE_SPACE")
    dn = table("perl_decimal.rs", "DECIMAL_NUMBER")
    out = [HEADER % ("regex-syntax-%s/src/unicode_tables (version named in /repo/Cargo.lock)" % ver),
           "From Coq Require Import NArith List.\nImport ListNotations.\nOpen Scope N_scope.\n"]
    out.append("Definition WHITE_SPACE : list (N * N) := %s." % coq_list(["(%d, %d)" % r for r in ws], 4))
    out.append("Definition DECIMAL_NUMBER : list (N * N) := %s." % coq_list(["(%d, %d)" % r for r in dn], 4))
    return "\n".join(out) + "\n"


# ---------------------------------------------------------------------------------------------
# type structure (C18, C20)

def split_top(s, sep=","):
    parts, depth, cur = [], 0, ""
    for ch in s:
        if ch in "<([{":
            depth += 1
        elif ch in ">)]}":
            depth -= 1
        if ch == sep and depth == 0:
            parts.append(cur); cur = ""
        else:
            cur += ch
    if cur.strip():
        parts.append(cur)
    return [p.strip() for p in parts if p.strip()]


def ty_ast(t, aliases, params=()):
    t = t.strip()
    t = re.sub(r"^(pub(\([^)]*\))?\s+)", "", t)
    if t in params:
        return 'TParam "%s"' % t
    if t in ("u8", "u16", "u32", "u64", "u128", "usize", "i8", "i16", "i32", "i64", "isize", "bool", "char", "f32", "f64", "()"):
        return 'TPrim "%s"' % t
    m = re.match(r"^&\s*'static\s+(.*)$", t)
    if m:
        return "TRef (%s)" % ty_ast(m.group(1), aliases, params)
    if t.startswith("&mut "):
        return "TRefMut (%s)" % ty_ast(t[5:], aliases, params)
    if t.startswith("&"):
        return "TRef (%s)" % ty_ast(re.sub(r"^&\s*('\w+\s+)?", "", t), aliases, params)
    if t.startswith("*const ") or t.startswith("*mut "):
        return "TRawPtr"
    m = re.match(r"^\[(.*);\s*[^;\]]+\]$", t)
    if m:
        return "TApp \"Array\" [%s]" % ty_ast(m.group(1), aliases, params)
    m = re.match(r"^\[(.*)\]$", t)
    if m:
        return "TApp \"Slice\" [%s]" % ty_ast(m.group(1), aliases, params)
    if t.startswith("("):
        inner = split_top(t[1:-1])
        return "TApp \"Tuple\" [%s]" % "; ".join(ty_ast(x, aliases, params) for x in inner)
    m = re.match(r"^([A-Za-z_][A-Za-z0-9_:]*)\s*(?:<(.*)>)?$", t, re.S)
    if not m:
        raise TieBroken("type %r not understood" % t)
    head = m.group(1).split("::")[-1]
    args = split_top(m.group(2)) if m.group(2) else []
    args = [a for a in args if not a.startswith("'")]
    if head in aliases:
        aparams, abody = aliases[head]
        if len(aparams) != len(args):
            raise TieBroken("alias %s arity" % head)
        sub = abody
        for p, a in zip(aparams, args):
            sub = re.sub(r"\b%s\b" % p, a, sub)
        return ty_ast(sub, aliases, params)
    return 'TApp "%s" [%s]' % (head, "; ".join(ty_ast(a, aliases, params) for a in args))


def gen_types(repo):
    files = sorted(glob.glob(os.path.join(repo, "src/*.rs")))
    files = [f for f in files if not f.endswith("engine_tests.rs") and not f.endswith("zobrist_values.rs")]
    decls = []
    aliases = {}
    srcs = {}
    for f in files:
        src = strip_comments(read(f))
        # drop #[cfg(test)] mod ... { } blocks
        while True:
            m = re.search(r"#\[cfg\(test\)\]\s*mod\s+\w+\s*\{", src)
            if not m:
                break
            _, end = find_block(src[m.start():], r"mod\s+\w+\s*\{")
            src = src[:m.start()] + src[m.start() + end:]
        srcs[f] = src
        for m in re.finditer(r"\btype\s+(\w+)\s*(?:<([^>]*)>)?\s*=\s*([^;]+);", src):
            if "Err" == m.group(1):
                continue
            aliases[m.group(1)] = ([p.strip() for p in (m.group(2) or "").split(",") if p.strip()], m.group(3).strip())
    for f in files:
        src = srcs[f]
        for m in re.finditer(r"\bstruct\s+(\w+)\s*(?:<([^>]*)>)?\s*(\(|\{)", src):
            name = m.group(1)
            params = tuple(p.strip() for p in (m.group(2) or "").split(",") if p.strip() and not p.strip().startswith("'"))
            if m.group(3) == "{":
                body, _ = find_block(src[m.start():], r"struct\s+\w+[^({]*\{")
                fields = []
                for part in split_top(body):
                    mm = re.match(r"^(?:pub(?:\([^)]*\))?\s+)?(\w+)\s*:\s*(.*)$", part, re.S)
                    if not mm:
                        raise TieBroken("struct %s: field %r" % (name, part))
                    fields.append(ty_ast(mm.group(2), aliases, params))
            else:
                i = m.end() - 1
                depth, j = 0, i
                while True:
                    if src[j] == "(":
                        depth += 1
                    elif src[j] == ")":
                        depth -= 1
                        if depth == 0:
                            break
                    j += 1
                fields = [ty_ast(p, aliases, params) for p in split_top(src[i + 1:j])]
            decls.append((name, params, fields))
        for m in re.finditer(r"\benum\s+(\w+)\s*(?:<([^>]*)>)?\s*\{", src):
            name = m.group(1)
            params = tuple(p.strip() for p in (m.group(2) or "").split(",") if p.strip())
            body, _ = find_block(src[m.start():], r"enum\s+\w+[^{]*\{")
            fields = []
            for part in split_top(body):
                mm = re.match(r"^(\w+)\s*(?:\((.*)\)|\{(.*)\})?$", part, re.S)
                if not mm:
                    raise TieBroken("enum %s: variant %r" % (name, part))
                if mm.group(2):
                    fields += [ty_ast(p, aliases, params) for p in split_top(mm.group(2))]
                elif mm.group(3):
                    for fp in split_top(mm.group(3)):
                        fields.append(ty_ast(fp.split(":", 1)[1], aliases, params))
            decls.append((name, params, fields))
    # unsafe impl Send/Sync, Drop impls, static mut, receivers
    unsafe_impls = []
    drops = []
    pub_fns = []
    statics = []
    for f in files:
        src = srcs[f]
        for m in re.finditer(r"\bunsafe\s+impl\s*(?:<[^>]*>)?\s*(Send|Sync)\s+for\s+(\w+)", src):
            unsafe_impls.append((m.group(1), m.group(2)))
        for m in re.finditer(r"\bimpl\s*(?:<[^>]*>)?\s*Drop\s+for\s+(\w+)", src):
            drops.append(m.group(1))
        for m in re.finditer(r"\bstatic\s+mut\s+(\w+)", src):
            statics.append(m.group(1))
        # impl blocks (inherent): receivers of pub fns
        for m in re.finditer(r"\bimpl\s*(?:<[^>]*>)?\s*(\w+)\s*(?:<[^>]*>)?\s*\{", src):
            ty = m.group(1)
            body, _ = find_block(src[m.start():], r"impl[^{]*\{")
            for fm in re.finditer(r"\bpub\s+fn\s+(\w+)\s*(?:<[^>]*>)?\s*\(\s*([^,)]*)", body):
                recv = " ".join(fm.group(2).split())
                if recv == "&self":
                    kind = "RecvRef"
                elif recv == "&mut self":
                    kind = "RecvMut"
                elif recv in ("self", "mut self"):
                    kind = "RecvOwned"
                else:
                    kind = "RecvNone"
                pub_fns.append((ty, fm.group(1), kind))
    out = [HEADER % "src/*.rs (struct/enum declarations, impl headers)",
           "From Coq Require Import String List.\nFrom Arimaa Require Import Types.\nImport ListNotations.\nOpen Scope string_scope.\n"]
    items = []
    for name, params, fields in decls:
        items.append('  ("%s", [%s], [%s])' % (name, "; ".join('"%s"' % p for p in params), "; ".join(fields)))
    out.append("Definition CRATE_TYPES : list (string * list string * list rty) := [\n%s ]." % ";\n".join(items))
    out.append("Definition UNSAFE_AUTO_IMPLS : list (string * string) := [%s]." %
               "; ".join('("%s", "%s")' % x for x in unsafe_impls))
    out.append("Definition DROP_IMPLS : list string := [%s]." % "; ".join('"%s"' % d for d in drops))
    out.append("Definition STATIC_MUTS : list string := [%s]." % "; ".join('"%s"' % d for d in statics))
    out.append("Definition PUB_FNS : list (string * string * recv) := [\n%s ]." %
               ";\n".join('  ("%s", "%s", %s)' % x for x in pub_fns))
    return "\n".join(out) + "\n"


GENERATORS = {
    "GenMasks.v": gen_masks,
    "GenZobrist.v": gen_zobrist,
    "GenEnums.v": gen_enums,
    "GenUnicode.v": gen_unicode,
    "GenTypes.v": gen_types,
}


def main():
    repo, outdir = sys.argv[1], sys.argv[2]
    os.makedirs(outdir, exist_ok=True)
    status = 0
    for fname, fn in GENERATORS.items():
        path = os.path.join(outdir, fname)
        try:
            text = fn(repo)
        except TieBroken as e:
            print("TIE-BROKEN %s: %s" % (fname, e))
            status = 2
            # leave a file that cannot compile so no stale data is ever used
            text = "(* tie broken: %s *)\nDefinition tie_broken : False := I.\n" % str(e).replace("*)", "* )")
        except Exception as e:  # tokenizer failure = tie broken as well
            print("TIE-BROKEN %s: translator error %r" % (fname, e))
            status = 2
            text = "(* tie broken: translator error *)\nDefinition tie_broken : False := I.\n"
        old = read(path) if os.path.exists(path) else None
        if old != text:
            with open(path, "w", encoding="utf-8") as f:
                f.write(text)
            print("gen: wrote", fname)
    sys.exit(status)


if __name__ == "__main__":
    main()
