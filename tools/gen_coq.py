#!/usr/bin/env python3
"""Data translator: Rust literals / declarations of /repo -> Coq (coq/gen/*.v).

Only *data* is translated: integer constants, constant arrays, enum declaration order,
`ALL` arrays, `match` arms of the shape `Variant => literal`, the regex literal of
display.rs, the Unicode range tables of the vendored regex-syntax crate named in
Cargo.lock, and the type structure of the crate (field types, receivers of pub fns,
Drop impls).  Anything the tokenizer does not understand raises TieBroken: the caller
reports "tie broken", nothing is skipped silently.

Files are rewritten only when their content changes (so `make` stays incremental).
usage: gen_coq.py <repo> <outdir>
"""
import glob
import os
import re
import sys


class TieBroken(Exception):
    pass


def read(p):
    with open(p, encoding="utf-8") as f:
        return f.read()


def strip_comments(src):
    # remove // comments and /* */ comments, but keep string/char literals intact
    out = []
    i, n = 0, len(src)
    while i < n:
        c = src[i]
        if src.startswith("//", i):
            j = src.find("\n", i)
            i = n if j < 0 else j
        elif src.startswith("/*", i):
            depth, i = 1, i + 2
            while i < n and depth:
                if src.startswith("/*", i):
                    depth += 1; i += 2
                elif src.startswith("*/", i):
                    depth -= 1; i += 2
                else:
                    i += 1
        elif c == '"':
            j = i + 1
            while j < n and src[j] != '"':
                j += 2 if src[j] == "\\" else 1
            out.append(src[i:j + 1]); i = j + 1
        elif c == "r" and i + 1 < n and src[i + 1] == '"' and (i == 0 or not (src[i - 1].isalnum() or src[i - 1] == "_")):
            j = src.find('"', i + 2)
            out.append(src[i:j + 1]); i = j + 1
        elif c == "'":
            # char literal or lifetime
            m = re.match(r"'(\\u\{[0-9a-fA-F]+\}|\\.|[^\\'])'", src[i:])
            if m:
                out.append(m.group(0)); i += len(m.group(0))
            else:
                out.append(c); i += 1
        else:
            out.append(c); i += 1
    return "".join(out)


def int_lit(tok, env=None):
    t = tok.strip().replace("_", "")
    t = re.sub(r"(u8|u16|u32|u64|u128|usize|i32|i64)$", "", t)
    try:
        if t.startswith("0b"):
            return int(t[2:], 2)
        if t.startswith("0x"):
            return int(t[2:], 16)
        if t.startswith("0o"):
            return int(t[2:], 8)
        return int(t, 10)
    except ValueError:
        if env is not None and tok.strip() in env:
            return env[tok.strip()]
        raise TieBroken("not an integer literal: %r" % tok)


def parse_consts(src, ty_pat=r"u64|usize|u8"):
    """all `const NAME: ty = <int literal or NAME>;` in order"""
    env = {}
    for m in re.finditer(r"\bconst\s+([A-Z0-9_]+)\s*:\s*(?:%s)\s*=\s*([^;\[\]]+);" % ty_pat, src):
        env[m.group(1)] = int_lit(m.group(2), env)
    return env


def parse_array(src, name):
    m = re.search(r"\bconst\s+%s\s*:\s*([^=]+)=\s*" % name, src)
    if not m:
        raise TieBroken("array constant %s not found" % name)
    i = m.end()
    if src[i] != "[":
        raise TieBroken("array constant %s: expected '['" % name)

    def parse(i):
        assert src[i] == "["
        i += 1
        items = []
        while True:
            while src[i].isspace() or src[i] == ",":
                i += 1
            if src[i] == "]":
                return items, i + 1
            if src[i] == "[":
                sub, i = parse(i)
                items.append(sub)
            else:
                j = i
                while src[j] not in ",]":
                    j += 1
                items.append(int_lit(src[i:j]))
                i = j

    val, j = parse(i)
    return val


def enum_variants(src, name):
    m = re.search(r"\benum\s+%s\s*\{([^}]*)\}" % name, src)
    if not m:
        raise TieBroken("enum %s not found" % name)
    vs = []
    for part in m.group(1).split(","):
        part = part.strip()
        if not part:
            continue
        mm = re.match(r"^([A-Z][A-Za-z0-9]*)$", part)
        if not mm:
            raise TieBroken("enum %s: variant %r is not a plain identifier" % (name, part))
        vs.append(mm.group(1))
    return vs


def all_array(src, ty):
    m = re.search(r"\bconst\s+ALL\s*:\s*\[\s*%s\s*;\s*(\d+)\s*\]\s*=\s*\[([^\]]*)\]" % ty, src)
    if not m:
        raise TieBroken("%s::ALL not found" % ty)
    items = [x.strip() for x in m.group(2).split(",") if x.strip()]
    out = []
    for it in items:
        mm = re.match(r"^%s::([A-Za-z0-9]+)$" % ty, it)
        if not mm:
            raise TieBroken("%s::ALL item %r" % (ty, it))
        out.append(mm.group(1))
    if len(out) != int(m.group(1)):
        raise TieBroken("%s::ALL length mismatch" % ty)
    return out


def find_block(src, start_pat):
    """return the brace-delimited block following the first match of start_pat"""
    m = re.search(start_pat, src)
    if not m:
        raise TieBroken("pattern not found: %s" % start_pat)
    i = src.find("{", m.end() - 1)
    depth, j = 0, i
    while True:
        if src[j] == "{":
            depth += 1
        elif src[j] == "}":
            depth -= 1
            if depth == 0:
                return src[i + 1:j], j + 1
        elif src[j] == '"':
            j += 1
            while src[j] != '"':
                j += 2 if src[j] == "\\" else 1
        elif src[j] == "'" and re.match(r"'(\\.|[^\\'])'", src[j:]):
            j += len(re.match(r"'(\\.|[^\\'])'", src[j:]).group(0)) - 1
        j += 1


def match_arms(block, ty):
    """arms `Ty::V => rhs,` of the first `match` inside block -> list of (variant, rhs)"""
    body, _ = find_block(block, r"\bmatch\b[^{]*\{")
    arms = []
    for m in re.finditer(r"%s::([A-Za-z0-9]+)\s*=>\s*([^,\n]+),?" % ty, body):
        arms.append((m.group(1), m.group(2).strip().rstrip(",")))
    if not arms:
        raise TieBroken("no match arms for %s" % ty)
    return arms


def char_or_str(lit):
    m = re.match(r"""^'(\\.|[^\\'])'$""", lit) or re.match(r'^"(\\.|[^\\"])"$', lit)
    if not m:
        raise TieBroken("expected one-character literal, got %r" % lit)
    s = m.group(1)
    if s.startswith("\\"):
        s = {"\\n": "\n", "\\t": "\t", "\\\\": "\\", "\\'": "'", '\\"': '"'}.get(s)
        if s is None:
            raise TieBroken("escape %r" % lit)
    return ord(s)


def from_str_arms(block, ty):
    """arms `'X' | 'x' => Some(Ty::V),` -> list of (codepoint, variant)"""
    body, _ = find_block(block, r"\bmatch\b[^{]*\{")
    out = []
    for m in re.finditer(r"((?:'(?:\\.|[^\\'])'\s*\|?\s*)+)=>\s*Some\(\s*%s::([A-Za-z0-9]+)\s*\)" % ty, body):
        for c in re.findall(r"'(?:\\.|[^\\'])'", m.group(1)):
            out.append((char_or_str(c), m.group(2)))
    if not out:
        raise TieBroken("no FromStr arms for %s" % ty)
    if not re.search(r"_\s*=>\s*None", body):
        raise TieBroken("FromStr for %s: expected a `_ => None` arm" % ty)
    return out


def coq_list(xs, per_line=4, indent="  "):
    if not xs:
        return "[]"
    lines = []
    for i in range(0, len(xs), per_line):
        lines.append(indent + "; ".join(xs[i:i + per_line]))
    return "[\n" + ";\n".join(lines) + " ]"


HEADER = "(* GENERATED by tools/gen_coq.py from %s -- do not edit; regenerated on every check run *)\n"


# ---------------------------------------------------------------------------------------------
# Semantic source of the data: `verif_harness dump` RUNS the crate (compiled constants through the
# verif_hooks feature, everything else through the public API) and prints JSON.  Behaviour-preserving
# rewrites of the source (const fn masks, arithmetic index maps, restructured parsers) therefore do
# not disturb the translation.  Only GenUnicode (vendored regex-syntax tables) and GenTypes (the type
# structure, which is syntax by nature) are still read from source text.

_DUMP = {}

def dump(repo):
    if "d" in _DUMP:
        return _DUMP["d"]
    import json, subprocess
    exe = os.environ.get("VERIF_DUMP_EXE") or os.path.join(os.path.dirname(os.path.dirname(os.path.abspath(__file__))),
                                                           "_build", "harness", "debug", "probe")
    if not os.path.exists(exe):
        raise TieBroken("probe binary %s not built (the harness does not compile against the current /repo?)" % exe)
    try:
        p = subprocess.run([exe], stdout=subprocess.PIPE, stderr=subprocess.PIPE, timeout=120)
    except Exception as e:
        raise TieBroken("probe failed to run: %r" % e)
    if p.returncode != 0:
        raise TieBroken("probe exited with %d: %s" % (p.returncode, p.stderr.decode("utf-8", "replace")[-300:]))
    try:
        d = json.loads(p.stdout.decode())
    except Exception as e:
        raise TieBroken("probe output is not JSON: %r" % e)
    _DUMP["d"] = d
    return d


PIECES = ["Rabbit", "Cat", "Dog", "Horse", "Camel", "Elephant"]
DIRS = ["Up", "Right", "Down", "Left"]
M64 = (1 << 64) - 1


def gen_masks(repo):
    d = dump(repo)
    env = d["masks"]
    need = ["LEFT_COLUMN_MASK", "RIGHT_COLUMN_MASK", "TOP_ROW_MASK", "BOTTOM_ROW_MASK",
            "P1_PLACEMENT_MASK", "P2_PLACEMENT_MASK", "LAST_P1_PLACEMENT_MASK",
            "LAST_P2_PLACEMENT_MASK", "TRAP_MASK", "P1_OBJECTIVE_MASK", "P2_OBJECTIVE_MASK"]
    for k in need:
        if k not in env:
            raise TieBroken("probe: mask %s missing" % k)
    out = [HEADER % "the compiled crate (verif_harness dump: masks, board size, shift macros evaluated on all single bits)",
           "From Coq Require Import NArith.\nOpen Scope N_scope.\n"]
    for k in need:
        out.append("Definition %s : N := %d." % (k, env[k]))
    out.append("Definition BOARD_WIDTH : N := %d." % d["board_width"])
    out.append("Definition BOARD_HEIGHT : N := %d." % d["board_height"])
    out.append("Definition ASCII_LETTER_A : N := %d." % d["ascii_a"])
    out.append("\n(* shift macros of bit_manip.rs, recovered from their values on the 64 single-bit words (and checked on"
               "\n   multi-bit probes): (is_shl, amount) and the mask cleared before shifting *)")
    sh = d["shifts"]

    def plain(is_shl, amount, x):
        return ((x << amount) & M64) if is_shl else (x >> amount)

    def infer(name):
        img = sh.get(name)
        if img is None or len(img) != 64:
            raise TieBroken("probe: shift macro %s missing" % name)
        cand = None
        for b in range(64):
            if img[b]:
                if img[b] & (img[b] - 1):
                    raise TieBroken("shift macro %s maps a single bit to several bits" % name)
                j = img[b].bit_length() - 1
                if j == b:
                    raise TieBroken("shift macro %s does not shift" % name)
                cand = (j > b, abs(j - b))
                break
        if cand is None:
            raise TieBroken("shift macro %s is constantly zero" % name)
        return cand, img

    def check_probes(name, k, f):
        for x, vals in d["shift_probes"]:
            if f(x) != vals[k]:
                raise TieBroken("shift macro %s is not the bit-linear function inferred from single bits (word %x)" % (name, x))

    order = ["shift_up", "shift_right", "shift_down", "shift_left", "shift_pieces_up", "shift_pieces_right",
             "shift_pieces_down", "shift_pieces_left"]
    plain_of = {}
    for k, name in enumerate(order[:4]):
        (is_shl, amount), img = infer(name)
        for b in range(64):
            if img[b] != plain(is_shl, amount, 1 << b):
                raise TieBroken("macro %s is not a plain shift" % name)
        check_probes(name, k, lambda x: plain(is_shl, amount, x))
        plain_of[name] = (is_shl, amount)
        amt = "BOARD_WIDTH" if amount == d["board_width"] and amount != 1 else str(amount)
        out.append("Definition %s : bool * N := (%s, %s)." % (name.upper(), "true" if is_shl else "false", amt))
    expected_mask = {"shift_pieces_up": "TOP_ROW_MASK", "shift_pieces_right": "RIGHT_COLUMN_MASK",
                     "shift_pieces_down": "BOTTOM_ROW_MASK", "shift_pieces_left": "LEFT_COLUMN_MASK"}
    for k, name in enumerate(order[4:], start=4):
        (is_shl, amount), img = infer(name)
        inner = [n for n, v in plain_of.items() if v == (is_shl, amount)]
        if not inner:
            raise TieBroken("macro %s does not use one of the four plain shifts" % name)
        # a named mask that reproduces the macro on every single bit (the expected one first)
        names = [expected_mask[name]] + [n for n in need if n != expected_mask[name]]
        chosen = None
        for mname in names:
            mv = env[mname]
            if all(img[b] == plain(is_shl, amount, (1 << b) & ~mv & M64) for b in range(64)):
                chosen = mname
                break
        if chosen is None:
            raise TieBroken("macro %s is not `shift(x & !MASK)` for any mask of bit_mask.rs" % name)
        mv = env[chosen]
        check_probes(name, k, lambda x: plain(is_shl, amount, x & ~mv & M64))
        out.append("Definition %s_INNER : bool * N := %s." % (name.upper(), inner[0].upper()))
        out.append("Definition %s_MASK : N := %s." % (name.upper(), chosen))
    return "\n".join(out) + "\n"


def gen_zobrist(repo):
    d = dump(repo)
    out = [HEADER % "the compiled crate (verif_harness dump: Zobrist tables through the verif_hooks feature)",
           "From Coq Require Import NArith List.\nImport ListNotations.\nOpen Scope N_scope.\n"]
    out.append("Definition INITIAL : N := %d." % d["INITIAL"])
    out.append("Definition PLAYER_TO_MOVE : N := %d." % d["PLAYER_TO_MOVE"])
    out.append("Definition STEP_VALUES : list N := %s." % coq_list([str(x) for x in d["STEP_VALUES"]], 2))
    for name in ["SQUARE_VALUES", "PUSH_VALUES", "POSSIBLE_PULL_VALUES"]:
        arr = d[name]
        for row in arr:
            if len(row) != 64:
                raise TieBroken("%s: a row has %d entries" % (name, len(row)))
        rows = [coq_list([str(x) for x in row], 3, "    ") for row in arr]
        out.append("Definition %s : list (list N) := [\n  %s ]." % (name, ";\n  ".join(rows)))
    return "\n".join(out) + "\n"


def gen_enums(repo):
    d = dump(repo)
    out = [HEADER % "the compiled crate (verif_harness dump: orders, letters, parser tables and index maps observed through the API)",
           "From Coq Require Import NArith List.\nFrom Arimaa Require Import Types.\nImport ListNotations.\nOpen Scope N_scope.\n"]

    def fn_map(name, ty, keys, val):
        return "Definition %s (k : %s) : N :=\n  match k with %s end." % (
            name, ty, " | ".join("%s => %s" % (k, val(k)) for k in keys))

    if sorted(d["piece_order"]) != sorted(PIECES) or sorted(d["dir_order"]) != sorted(DIRS):
        raise TieBroken("probe: enum variants changed")
    out.append("(* derive(PartialOrd, Ord) on Piece: the order observed by sorting *)")
    out.append(fn_map("piece_rank", "piece", PIECES, lambda k: d["piece_order"].index(k)))
    out.append(fn_map("dir_rank", "dir", DIRS, lambda k: d["dir_order"].index(k)))
    out.append("Definition PIECE_ALL : list piece := [%s]." % "; ".join(d["piece_all"]))
    out.append("Definition DIR_ALL : list dir := [%s]." % "; ".join(d["dir_all"]))
    out.append(fn_map("piece_letter", "piece", PIECES, lambda k: d["piece_letter"][k]))
    out.append(fn_map("dir_letter", "dir", DIRS, lambda k: d["dir_letter"][k]))
    out.append("Definition piece_of_letter_table : list (N * piece) := [%s]." % "; ".join("(%d, %s)" % (c, k) for c, k in d["piece_of_letter"]))
    out.append("Definition dir_of_letter_table : list (N * dir) := [%s]." % "; ".join("(%d, %s)" % (c, k) for c, k in d["dir_of_letter"]))
    out.append("Definition diagram_piece_of_letter_table : list (N * piece) := [%s]." % "; ".join("(%d, %s)" % (c, k) for c, k in d["diagram_piece_of_letter"]))
    if d["diagram_gold_mismatch"]:
        raise TieBroken("diagram parser: owner of a piece letter is not 'ASCII upper case' for code points %r" % d["diagram_gold_mismatch"][:5])
    out.append(fn_map("diagram_upper_letter", "piece", PIECES, lambda k: d["diagram_upper_letter"][k]))
    if d["printed_cells"] != 64:
        raise TieBroken("diagram printer: %d cells" % d["printed_cells"])
    out.append("Definition DIAGRAM_TRAP_INDICES : list N := [%s]." % "; ".join(map(str, d["trap_indices"])))
    out.append("Definition DIAGRAM_DEFAULT_MOVE : N := %d." % d["default_move"])
    out.append("Definition DIAGRAM_DEFAULT_P1 : bool := %s." % ("true" if d["default_p1"] else "false"))
    if sorted(d["side_letters"]) != [98, 103, 115, 119]:
        raise TieBroken("diagram header accepts side letters %r (model: g s w b)" % d["side_letters"])
    out.append("Definition DIAGRAM_SILVER_LETTERS : list N := [%s]." % "; ".join(map(str, sorted(d["silver_letters"], reverse=True))))
    idx = d["piece_idx"]

    def opt(v):
        return "Some %d" % v if v >= 0 else "None"
    for k in PIECES:
        if idx[k][0] < 0 or idx[k][1] < 0:
            raise TieBroken("zobrist piece_value(%s) is not a row of SQUARE_VALUES" % k)
        if idx[k][2] == -1 or idx[k][3] == -1:
            raise TieBroken("zobrist push/pull value of %s is not a row of its table" % k)
    offs = set(idx[k][1] - idx[k][0] for k in PIECES)
    if len(offs) != 1:
        raise TieBroken("zobrist piece_value: gold/silver rows are not a constant offset apart")
    out.append("Definition square_piece_idx (k : piece) : option N :=\n  match k with %s end." % " | ".join("%s => %s" % (k, opt(idx[k][0])) for k in PIECES))
    out.append("Definition SQUARE_P1_OFFSET : N := 0.")
    out.append("Definition SQUARE_P2_OFFSET : N := %d." % offs.pop())
    out.append("Definition push_piece_idx (k : piece) : option N :=\n  match k with %s end." % " | ".join("%s => %s" % (k, opt(idx[k][2])) for k in PIECES))
    out.append("Definition pull_piece_idx (k : piece) : option N :=\n  match k with %s end." % " | ".join("%s => %s" % (k, opt(idx[k][3])) for k in PIECES))
    return "\n".join(out) + "\n"


def char_lit_cp(lit):
    m = re.match(r"^'\\u\{([0-9a-fA-F]+)\}'$", lit)
    if m:
        return int(m.group(1), 16)
    esc = {"'\\t'": 9, "'\\n'": 10, "'\\r'": 13, "'\\''": 39, "'\\\\'": 92, "'\\0'": 0}
    if lit in esc:
        return esc[lit]
    m = re.match(r"^'(.)'$", lit, re.S)
    if m:
        return ord(m.group(1))
    raise TieBroken("char literal %r" % lit)


def gen_unicode(repo):
    lock = read(os.path.join(repo, "Cargo.lock"))
    m = re.search(r'name = "regex-syntax"\s*\nversion = "([^"]+)"', lock)
    if not m:
        raise TieBroken("Cargo.lock: regex-syntax not found")
    ver = m.group(1)
    cands = glob.glob(os.path.expanduser("~/.cargo/registry/src/*/regex-syntax-%s" % ver))
    if not cands:
        raise TieBroken("vendored regex-syntax-%s not found in the cargo registry" % ver)
    base = cands[0]

    def table(fname, name):
        src = read(os.path.join(base, "src/unicode_tables", fname))
        mm = re.search(r"pub const %s: &'static \[\(char, char\)\] = &\[(.*?)\];" % name, src, re.S)
        if not mm:
            raise TieBroken("%s: table %s not found" % (fname, name))
        rs = []
        for a, b in re.findall(r"\(\s*('(?:\\u\{[0-9a-fA-F]+\}|\\.|[^\\'])')\s*,\s*('(?:\\u\{[0-9a-fA-F]+\}|\\.|[^\\'])')\s*\)", mm.group(1)):
            rs.append((char_lit_cp(a), char_lit_cp(b)))
        if not rs:
            raise TieBroken("%s: empty table" % fname)
        return rs

    ws = table("perl_space.rs", "WHITE_SPACE")
    dn = table("perl_decimal.rs", "DECIMAL_NUMBER")
    out = [HEADER % ("regex-syntax-%s/src/unicode_tables (version named in /repo/Cargo.lock)" % ver),
           "From Coq Require Import NArith List.\nImport ListNotations.\nOpen Scope N_scope.\n"]
    out.append("Definition WHITE_SPACE : list (N * N) := %s." % coq_list(["(%d, %d)" % r for r in ws], 4))
    out.append("Definition DECIMAL_NUMBER : list (N * N) := %s." % coq_list(["(%d, %d)" % r for r in dn], 4))
    return "\n".join(out) + "\n"


# ---------------------------------------------------------------------------------------------
# type structure (C18, C20)

def split_top(s, sep=","):
    parts, depth, cur = [], 0, ""
    for ch in s:
        if ch in "<([{":
            depth += 1
        elif ch in ">)]}":
            depth -= 1
        if ch == sep and depth == 0:
            parts.append(cur); cur = ""
        else:
            cur += ch
    if cur.strip():
        parts.append(cur)
    return [p.strip() for p in parts if p.strip()]


def ty_ast(t, aliases, params=()):
    t = t.strip()
    t = re.sub(r"^(pub(\([^)]*\))?\s+)", "", t)
    if t in params:
        return 'TParam "%s"' % t
    if t in ("u8", "u16", "u32", "u64", "u128", "usize", "i8", "i16", "i32", "i64", "isize", "bool", "char", "f32", "f64", "()"):
        return 'TPrim "%s"' % t
    m = re.match(r"^&\s*'static\s+(.*)$", t)
    if m:
        return "TRef (%s)" % ty_ast(m.group(1), aliases, params)
    if t.startswith("&mut "):
        return "TRefMut (%s)" % ty_ast(t[5:], aliases, params)
    if t.startswith("&"):
        return "TRef (%s)" % ty_ast(re.sub(r"^&\s*('\w+\s+)?", "", t), aliases, params)
    if t.startswith("*const ") or t.startswith("*mut "):
        return "TRawPtr"
    m = re.match(r"^\[(.*);\s*[^;\]]+\]$", t)
    if m:
        return "TApp \"Array\" [%s]" % ty_ast(m.group(1), aliases, params)
    m = re.match(r"^\[(.*)\]$", t)
    if m:
        return "TApp \"Slice\" [%s]" % ty_ast(m.group(1), aliases, params)
    if t.startswith("("):
        inner = split_top(t[1:-1])
        return "TApp \"Tuple\" [%s]" % "; ".join(ty_ast(x, aliases, params) for x in inner)
    m = re.match(r"^([A-Za-z_][A-Za-z0-9_:]*)\s*(?:<(.*)>)?$", t, re.S)
    if not m:
        raise TieBroken("type %r not understood" % t)
    head = m.group(1).split("::")[-1]
    args = split_top(m.group(2)) if m.group(2) else []
    args = [a for a in args if not a.startswith("'")]
    if head in aliases:
        aparams, abody = aliases[head]
        if len(aparams) != len(args):
            raise TieBroken("alias %s arity" % head)
        sub = abody
        for p, a in zip(aparams, args):
            sub = re.sub(r"\b%s\b" % p, a, sub)
        return ty_ast(sub, aliases, params)
    return 'TApp "%s" [%s]' % (head, "; ".join(ty_ast(a, aliases, params) for a in args))


def gen_types(repo):
    files = sorted(glob.glob(os.path.join(repo, "src/*.rs")))
    files = [f for f in files if not f.endswith("engine_tests.rs") and not f.endswith("zobrist_values.rs")]
    decls = []
    aliases = {}
    srcs = {}
    for f in files:
        src = strip_comments(read(f))
        # drop #[cfg(test)] mod ... { } blocks
        while True:
            m = re.search(r"#\[cfg\(test\)\]\s*mod\s+\w+\s*\{", src)
            if not m:
                break
            _, end = find_block(src[m.start():], r"mod\s+\w+\s*\{")
            src = src[:m.start()] + src[m.start() + end:]
        srcs[f] = src
        for m in re.finditer(r"\btype\s+(\w+)\s*(?:<([^>]*)>)?\s*=\s*([^;]+);", src):
            if "Err" == m.group(1):
                continue
            aliases[m.group(1)] = ([p.strip() for p in (m.group(2) or "").split(",") if p.strip()], m.group(3).strip())
    for f in files:
        src = srcs[f]
        for m in re.finditer(r"\bstruct\s+(\w+)\s*(?:<([^>]*)>)?\s*(\(|\{)", src):
            name = m.group(1)
            params = tuple(p.strip() for p in (m.group(2) or "").split(",") if p.strip() and not p.strip().startswith("'"))
            if m.group(3) == "{":
                body, _ = find_block(src[m.start():], r"struct\s+\w+[^({]*\{")
                fields = []
                for part in split_top(body):
                    mm = re.match(r"^(?:pub(?:\([^)]*\))?\s+)?(\w+)\s*:\s*(.*)$", part, re.S)
                    if not mm:
                        raise TieBroken("struct %s: field %r" % (name, part))
                    fields.append(ty_ast(mm.group(2), aliases, params))
            else:
                i = m.end() - 1
                depth, j = 0, i
                while True:
                    if src[j] == "(":
                        depth += 1
                    elif src[j] == ")":
                        depth -= 1
                        if depth == 0:
                            break
                    j += 1
                fields = [ty_ast(p, aliases, params) for p in split_top(src[i + 1:j])]
            decls.append((name, params, fields))
        for m in re.finditer(r"\benum\s+(\w+)\s*(?:<([^>]*)>)?\s*\{", src):
            name = m.group(1)
            params = tuple(p.strip() for p in (m.group(2) or "").split(",") if p.strip())
            body, _ = find_block(src[m.start():], r"enum\s+\w+[^{]*\{")
            fields = []
            for part in split_top(body):
                mm = re.match(r"^(\w+)\s*(?:\((.*)\)|\{(.*)\})?$", part, re.S)
                if not mm:
                    raise TieBroken("enum %s: variant %r" % (name, part))
                if mm.group(2):
                    fields += [ty_ast(p, aliases, params) for p in split_top(mm.group(2))]
                elif mm.group(3):
                    for fp in split_top(mm.group(3)):
                        fields.append(ty_ast(fp.split(":", 1)[1], aliases, params))
            decls.append((name, params, fields))
    # unsafe impl Send/Sync, Drop impls, static mut, receivers
    unsafe_impls = []
    drops = []
    pub_fns = []
    statics = []
    for f in files:
        src = srcs[f]
        for m in re.finditer(r"\bunsafe\s+impl\s*(?:<[^>]*>)?\s*(Send|Sync)\s+for\s+(\w+)", src):
            unsafe_impls.append((m.group(1), m.group(2)))
        for m in re.finditer(r"\bimpl\s*(?:<[^>]*>)?\s*Drop\s+for\s+(\w+)", src):
            drops.append(m.group(1))
        for m in re.finditer(r"\bstatic\s+mut\s+(\w+)", src):
            statics.append(m.group(1))
        # impl blocks (inherent): receivers of pub fns
        for m in re.finditer(r"\bimpl\s*(?:<[^>]*>)?\s*(\w+)\s*(?:<[^>]*>)?\s*\{", src):
            ty = m.group(1)
            body, _ = find_block(src[m.start():], r"impl[^{]*\{")
            for fm in re.finditer(r"\bpub\s+fn\s+(\w+)\s*(?:<[^>]*>)?\s*\(\s*([^,)]*)", body):
                recv = " ".join(fm.group(2).split())
                if recv == "&self":
                    kind = "RecvRef"
                elif recv == "&mut self":
                    kind = "RecvMut"
                elif recv in ("self", "mut self"):
                    kind = "RecvOwned"
                else:
                    kind = "RecvNone"
                pub_fns.append((ty, fm.group(1), kind))
    out = [HEADER % "src/*.rs (struct/enum declarations, impl headers)",
           "From Coq Require Import String List.\nFrom Arimaa Require Import Types.\nImport ListNotations.\nOpen Scope string_scope.\n"]
    items = []
    for name, params, fields in decls:
        items.append('  ("%s", [%s], [%s])' % (name, "; ".join('"%s"' % p for p in params), "; ".join(fields)))
    out.append("Definition CRATE_TYPES : list (string * list string * list rty) := [\n%s ]." % ";\n".join(items))
    out.append("Definition UNSAFE_AUTO_IMPLS : list (string * string) := [%s]." %
               "; ".join('("%s", "%s")' % x for x in unsafe_impls))
    out.append("Definition DROP_IMPLS : list string := [%s]." % "; ".join('"%s"' % d for d in drops))
    out.append("Definition STATIC_MUTS : list string := [%s]." % "; ".join('"%s"' % d for d in statics))
    out.append("Definition PUB_FNS : list (string * string * recv) := [\n%s ]." %
               ";\n".join('  ("%s", "%s", %s)' % x for x in pub_fns))
    return "\n".join(out) + "\n"


GENERATORS = {
    "GenMasks.v": gen_masks,
    "GenZobrist.v": gen_zobrist,
    "GenEnums.v": gen_enums,
    "GenUnicode.v": gen_unicode,
    "GenTypes.v": gen_types,
}


def main():
    repo, outdir = sys.argv[1], sys.argv[2]
    os.makedirs(outdir, exist_ok=True)
    status = 0
    for fname, fn in GENERATORS.items():
        path = os.path.join(outdir, fname)
        try:
            text = fn(repo)
        except TieBroken as e:
            print("TIE-BROKEN %s: %s" % (fname, e))
            status = 2
            # leave a file that cannot compile so no stale data is ever used
            text = "(* tie broken: %s *)\nDefinition tie_broken : False := I.\n" % str(e).replace("*)", "* )")
        except Exception as e:  # tokenizer failure = tie broken as well
            print("TIE-BROKEN %s: translator error %r" % (fname, e))
            status = 2
            text = "(* tie broken: translator error *)\nDefinition tie_broken : False := I.\n"
        old = read(path) if os.path.exists(path) else None
        if old != text:
            with open(path, "w", encoding="utf-8") as f:
                f.write(text)
            print("gen: wrote", fname)
    sys.exit(status)


if __name__ == "__main__":
    main()
