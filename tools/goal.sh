#!/bin/bash
# usage: goal.sh <file.v> <line>  -- prints the proof state after the given line (run from /verif/coq)
f=$1; n=$2
(head -n $n $f; echo; echo "Show.") | timeout 300 coqtop -Q gen Arimaa -Q model Arimaa -Q spec Arimaa -Q proofs Arimaa -Q props Arimaa 2>&1 | tail -${3:-40}
