use arimaa_engine_step::*;
use std::collections::BTreeSet;
use std::str::FromStr;
type Cell = Option<(bool, u8)>; // (gold, strength 0..5 = R C D H M E)
type B = [Cell; 64];
const TRAPS: [usize; 4] = [18, 21, 42, 45];
fn adj(i: usize, d: usize) -> Option<usize> { // 0 n, 1 e, 2 s, 3 w
    match d { 0 => if i >= 8 { Some(i-8) } else { None }, 1 => if i%8 != 7 { Some(i+1) } else { None },
              2 => if i < 56 { Some(i+8) } else { None }, _ => if i%8 != 0 { Some(i-1) } else { None } } }
fn nbrs(i: usize) -> Vec<usize> { (0..4).filter_map(|d| adj(i,d)).collect() }
fn frozen(b:&B,i:usize)->bool{ let (g,s)=b[i].unwrap();
    nbrs(i).iter().any(|&j| matches!(b[j], Some((g2,s2)) if g2!=g && s2>s)) && !nbrs(i).iter().any(|&j| matches!(b[j], Some((g2,_)) if g2==g)) }
fn step(b:&B,i:usize,d:usize)->B{ let mut n=*b; let t=adj(i,d).unwrap(); assert!(n[t].is_none()); n[t]=n[i]; n[i]=None;
    let snap=n; for &t in TRAPS.iter(){ if let Some((g,_))=snap[t]{ if !nbrs(t).iter().any(|&j| matches!(snap[j],Some((g2,_)) if g2==g)){ n[t]=None; } } } n }
fn single_ok(b:&B,gold:bool,i:usize,d:usize)->bool{
    match b[i]{ Some((g,s)) if g==gold => { if frozen(b,i){return false;} match adj(i,d){Some(t) if b[t].is_none()=> !(s==0 && ((gold&&d==2)||(!gold&&d==0))), _=>false} } _=>false } }
type Steps = Vec<(usize,usize)>;
// all prefixes of flattenings of legal turns (Single / Pull / Push moves, <= 4 steps), written from the rule book
fn turns(b:&B,gold:bool,used:usize,pre:&Steps,out:&mut BTreeSet<Steps>){
    if used<4 { for i in 0..64 { for d in 0..4 { if single_ok(b,gold,i,d){ let mut p=pre.clone(); p.push((i,d)); out.insert(p.clone()); let nb=step(b,i,d); turns(&nb,gold,used+1,&p,out);
        if used+2<=4 { let (_,s)=b[i].unwrap(); for dv in 0..4 { let od=(dv+2)%4; if let Some(v)=adj(i,od){ if let Some((g2,s2))=b[v]{ if g2!=gold && s2<s {
            assert!(nb[v]==b[v], "pull victim vanished");
            let mut q=p.clone(); q.push((v,dv)); out.insert(q.clone()); let nb2=step(&nb,v,dv); turns(&nb2,gold,used+2,&q,out); } } } } } } } } }
    if used+2<=4 { for v in 0..64 { if let Some((g2,s2))=b[v]{ if g2!=gold { for dv in 0..4 { if let Some(t)=adj(v,dv){ if b[t].is_none(){
        for dp in 0..4 { let od=(dp+2)%4; if let Some(p)=adj(v,od){ if let Some((g,s))=b[p]{ if g==gold && s>s2 && !frozen(b,p){
            let mut q=pre.clone(); q.push((v,dv)); out.insert(q.clone()); let nb=step(b,v,dv); assert!(nb[p]==b[p],"pusher vanished");
            q.push((p,dp)); out.insert(q.clone()); let nb2=step(&nb,p,dp); turns(&nb2,gold,used+2,&q,out); } } } } } } } } } } } }
fn engine(gs:&GameState,pre:&Steps,out:&mut BTreeSet<Steps>,depth:usize,bad:&mut Vec<String>){
    let acts=gs.valid_actions_no_rep();
    let pend=matches!(gs.unwrap_play_phase().push_pull_state(),PushPullState::MustCompletePush(_,_));
    if acts.contains(&Action::Pass) != (depth>=1 && !pend) { bad.push(format!("pass mismatch at {:?}",pre)); }
    let mut seen=BTreeSet::new(); for a in &acts { if !seen.insert(*a){ bad.push(format!("dup {:?}",a)); } }
    if pend && acts.is_empty(){ bad.push(format!("pending push without completion {:?}",pre)); }
    for a in acts { if let Action::Move(sq,dir)=a { let d=match dir{Direction::Up=>0,Direction::Right=>1,Direction::Down=>2,Direction::Left=>3};
        let mut p=pre.clone(); p.push((sq.index(),d)); out.insert(p.clone());
        if depth+1<4 { let n=gs.take_action(&a); engine(&n,&p,out,depth+1,bad); } } } }
struct Rng(u64); impl Rng{ fn next(&mut self)->u64{ self.0^=self.0<<13; self.0^=self.0>>7; self.0^=self.0<<17; self.0 } fn below(&mut self,n:u64)->u64{ self.next()%n } }
fn main(){
    let seed:u64=std::env::args().nth(1).unwrap().parse().unwrap(); let n:usize=std::env::args().nth(2).unwrap().parse().unwrap();
    let dense=std::env::args().nth(3).is_some(); // any 3rd argument: 8-17 pieces in a 6x6 region instead of 3-7 in 4x4
    let mut r=Rng(seed*0x9E3779B97F4A7C15+1); let (mut total,mut mism)=(0usize,0);
    for case in 0..n {
        let mut b:B=[None;64]; let (np,span,off)=if dense {(8+r.below(10) as usize,6,3)} else {(3+r.below(5) as usize,4,5)};
        let fx=r.below(off) as usize; let fy=r.below(off) as usize;
        for _ in 0..np { let i=(fy+r.below(span) as usize)*8+fx+r.below(span) as usize; b[i]=Some((r.below(2)==0, r.below(6) as u8)); }
        for &t in TRAPS.iter(){ if let Some((g,_))=b[t]{ if !nbrs(t).iter().any(|&j| matches!(b[j],Some((g2,_)) if g2==g)){ b[t]=None; } } }
        let gold=r.below(2)==0; let letters=['r','c','d','h','m','e'];
        let mut s=format!("2{}\n +-----------------+\n", if gold {'g'} else {'s'});
        for row in 0..8 { s.push_str(&format!("{}|",8-row)); for col in 0..8 { s.push(' '); s.push(match b[row*8+col]{Some((g,k))=>{let c=letters[k as usize]; if g {c.to_ascii_uppercase()} else {c}},None=>' '}); } s.push_str(" |\n"); }
        s.push_str(" +-----------------+\n");
        let gs=GameState::from_str(&s).unwrap();
        let mut e=BTreeSet::new(); let mut bad=vec![]; engine(&gs,&vec![],&mut e,0,&mut bad);
        let mut t=BTreeSet::new(); turns(&b,gold,0,&vec![],&mut t); total+=e.len();
        if e!=t || !bad.is_empty() { mism+=1; if mism<=5 { println!("MISMATCH case {}:\n{}", case, s);
            for x in e.difference(&t).take(5){ println!("  engine only: {:?}",x); } for x in t.difference(&e).take(5){ println!("  rules only: {:?}",x); } for x in bad.iter().take(5){ println!("  {}",x);} } }
    }
    println!("cases {} sequences {} mismatches {}", n,total,mism);
}
