use arimaa_engine_step::*;
use std::str::FromStr;
struct Rng(u64); impl Rng{ fn next(&mut self)->u64{ self.0^=self.0<<13; self.0^=self.0>>7; self.0^=self.0<<17; self.0 } fn below(&mut self,n:usize)->usize{ (self.next()%(n as u64)) as usize } }
type BW=[u64;8];
fn words(p:&PieceBoardState)->BW{ [p.p1_pieces,p.all_pieces,p.elephants,p.camels,p.horses,p.dogs,p.cats,p.rabbits] }
fn main(){
    let seed:u64=std::env::args().nth(1).unwrap().parse().unwrap(); let games:usize=std::env::args().nth(2).unwrap().parse().unwrap();
    let mut rng=Rng(seed*0x9E3779B97F4A7C15+11); let letters=['r','c','d','h','m','e']; let traps=[18usize,21,42,45];
    let mut c13=0u64; let (mut states,mut withheld,mut mism,mut third_blocks,mut same_blocks,mut caps,mut stuck)=(0u64,0u64,0u64,0u64,0u64,0u64,0u64);
    for _ in 0..games {
        let mut cells=[' ';64]; let np=1+rng.below(4); let fx=rng.below(5); let fy=1+rng.below(3);
        for k in 0..np { let i=(fy+rng.below(4))*8+fx+rng.below(4); if traps.contains(&i){continue;} let c=letters[1+rng.below(5)]; cells[i]=if k%2==0 {c.to_ascii_uppercase()} else {c}; }
        for r in ['R','r'] { loop { let i=(fy+rng.below(4))*8+fx+rng.below(4); if cells[i]==' ' && !traps.contains(&i) { cells[i]=r; break; } } }
        let gold=rng.below(2)==0;
        let mut s=format!("2{}\n +-----------------+\n",if gold{'g'}else{'s'});
        for r in 0..8 { s.push_str(&format!("{}|",8-r)); for c in 0..8 { s.push(' '); s.push(cells[r*8+c]); } s.push_str(" |\n"); } s.push_str(" +-----------------+\n");
        let mut g=GameState::from_str(&s).unwrap();
        let mut hist:Vec<(BW,bool)>=vec![(words(g.piece_board()),g.is_p1_turn_to_move())]; // never forgotten
        let mut turn_start=words(g.piece_board());
        for _ in 0..400 {
            states+=1; let step=g.current_step(); let side=g.is_p1_turn_to_move();
            let norep=g.valid_actions_no_rep(); let va=g.valid_actions();
            let mut expect=vec![];
            for a in norep.iter(){ let ends=matches!(a,Action::Pass)|| (matches!(a,Action::Move(_,_)) && step==3); let mut wh=false;
                if ends { let nb=words(g.take_action(a).piece_board()); let cnt=hist.iter().filter(|(b,s)| *b==nb && *s==!side).count();
                    if nb==turn_start { wh=true; same_blocks+=1; } else if cnt>=2 { wh=true; third_blocks+=1; } }
                if wh {withheld+=1;} else {expect.push(*a);} }
            if expect!=va { mism+=1; if mism<=3 { println!("MISMATCH\n{}step {} expect {:?}\n got {:?}",g,step,expect,va); } }
            for a in norep.iter(){ if let Action::Move(_,_)=a { let pb=g.piece_board(); let nx=g.take_action(a); let nb=nx.piece_board();
                let removed=pb.all_pieces.count_ones()-nb.all_pieces.count_ones(); let pv=g.trapped_animal_for_action(a);
                if removed>1 { mism+=1; println!("C13: removed {}",removed); }
                match pv { None=> if removed!=0 { mism+=1; println!("C13: preview None but removed"); },
                  Some((sq,pc,gold))=> { let dec=pb.bits_for_piece(pc,gold).count_ones()-nb.bits_for_piece(pc,gold).count_ones();
                    if removed!=1 || dec!=1 || !traps.contains(&sq.index()) || nb.all_pieces>>sq.index()&1==1 { mism+=1; println!("C13: preview wrong {:?} {:?} {}",sq,pc,gold); } else { c13+=1; } } } } }
            let hm=g.has_move(g.piece_board()).is_none(); if hm!=!va.is_empty(){ mism+=1; println!("has_move mismatch\n{}",g); }
            if g.can_pass(true)!=va.contains(&Action::Pass) || g.can_pass(false)!=norep.contains(&Action::Pass){ mism+=1; println!("can_pass mismatch"); }
            if step>0 && g.is_terminal().is_some()!=va.is_empty(){ mism+=1; println!("midturn terminal mismatch"); }
            if va.is_empty(){ stuck+=1; break; }
            if step==0 && g.is_terminal().is_some(){ break; }
            let quiet:Vec<Action>=va.iter().cloned().filter(|a| match a { Action::Move(sq,_)=> g.piece_board().rabbits>>sq.index()&1==0 && g.trapped_animal_for_action(a).is_none(), _=>true }).collect();
            let pool=if !quiet.is_empty() && rng.below(20)!=0 {&quiet} else {&va};
            let a=if pool.contains(&Action::Pass) && rng.below(3)==0 {Action::Pass} else {pool[rng.below(pool.len())]};
            let before=g.piece_board().all_pieces.count_ones(); let n=g.take_action(&a); if n.piece_board().all_pieces.count_ones()<before {caps+=1;}
            if n.is_p1_turn_to_move()!=side { let nb=words(n.piece_board());
                if nb==turn_start { println!("C05 violation: unchanged board"); mism+=1; }
                if hist.iter().filter(|(b,s)| *b==nb && *s==!side).count()>=2 { println!("C05 violation: third occurrence"); mism+=1; }
                hist.push((nb,!side)); turn_start=nb; }
            g=n;
        }
    }
    println!("c13 previews with capture {}",c13);
    println!("states {} withheld {} (same-board {} third {}) captures {} stuck {} mismatches {}",states,withheld,same_blocks,third_blocks,caps,stuck,mism);
}
