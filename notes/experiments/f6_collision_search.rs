use arimaa_engine_step::*;
// Two same-material legal boards with equal Zobrist board hash: generalised birthday, 4 lists x 4 relocating pieces.
// Gold pieces live on ranks 1-3 (minus traps, minus the rabbit on a1), Silver on ranks 6-8 (minus traps, minus the rabbit on h8).
// Output line: SOLUTION g1 g2 s1 s2, each [a0,a1,a2,a3,b0,b1,b2,b3] = squares in A then in B of kinds [E,M,H,D] (lists 1,3) / [H,D,C,C] (lists 2,4).
fn hash_of(p1:u64,k:[u64;6],gold:bool)->u64{ let pb=PieceBoard::new(p1,k[0],k[1],k[2],k[3],k[4],k[5]); Zobrist::from_piece_board(pb.piece_board(),gold,0).board_state_hash() }
struct Rng(u64); impl Rng{ fn next(&mut self)->u64{ self.0^=self.0<<13; self.0^=self.0>>7; self.0^=self.0<<17; self.0 } fn below(&mut self,n:usize)->usize{ (self.next()%(n as u64)) as usize } }
fn main(){
    let seed:u64=std::env::args().nth(1).unwrap().parse().unwrap(); let nlist:usize=std::env::args().nth(2).unwrap().parse().unwrap(); let kbits:usize=std::env::args().nth(3).unwrap().parse().unwrap();
    let empty=hash_of(0,[0;6],true);
    let mut v=vec![vec![vec![0u64;64];5];2]; // v[owner][kind 0=E,1=M,2=H,3=D,4=C][sq], read through the crate's own hash function
    for o in 0..2 { for k in 0..5 { for sq in 0..64 { let b=1u64<<sq; let mut ks=[0u64;6]; ks[k]=b; v[o][k][sq]=hash_of(if o==0 {b} else {0},ks,true)^empty; } } }
    let gsq:Vec<u8>=(40..64).filter(|i| ![42,45,56].contains(i)).collect(); let ssq:Vec<u8>=(0..24).filter(|i| ![18,21,7].contains(i)).collect();
    let mut rng=Rng(seed*0x9E3779B97F4A7C15+7);
    let kinds=[[0usize,1,2,3],[2,3,4,4],[0,1,2,3],[2,3,4,4]];
    let mut lists:Vec<Vec<(u64,[u8;8])>>=vec![];
    for li in 0..4 { let o=li/2; let ks=kinds[li]; let sqs=if o==0 {&gsq} else {&ssq}; let mut l=Vec::with_capacity(nlist);
        while l.len()<nlist { let mut a=[0u8;4]; let mut b=[0u8;4];
            let pick=|r:&mut Rng,out:&mut [u8;4]|{ let mut n=0; while n<4 { let s=sqs[r.below(sqs.len())]; if !out[..n].contains(&s){ out[n]=s; n+=1; } } };
            pick(&mut rng,&mut a); pick(&mut rng,&mut b);
            let mut val=0u64; for i in 0..4 { val^=v[o][ks[i]][a[i] as usize]^v[o][ks[i]][b[i] as usize]; }
            l.push((val,[a[0],a[1],a[2],a[3],b[0],b[1],b[2],b[3]])); }
        lists.push(l); }
    for attempt in 0..1000 {
        let mut bits:Vec<u32>=(0..64).collect(); for i in (1..64).rev(){ let j=rng.below(i+1); bits.swap(i,j);} let sel:Vec<u32>=bits[..kbits].to_vec();
        let key=|x:u64|->u32{ let mut k=0u32; for (n,&b) in sel.iter().enumerate(){ k|=(((x>>b)&1) as u32)<<n; } k };
        let join=|a:&Vec<(u64,[u8;8])>,b:&Vec<(u64,[u8;8])>|->Vec<(u64,u32,u32)>{
            let mut ka:Vec<(u32,u32)>=a.iter().enumerate().map(|(i,x)|(key(x.0),i as u32)).collect(); ka.sort_unstable();
            let mut kb:Vec<(u32,u32)>=b.iter().enumerate().map(|(i,x)|(key(x.0),i as u32)).collect(); kb.sort_unstable();
            let mut out=vec![]; let (mut i,mut j)=(0,0);
            while i<ka.len()&&j<kb.len(){ if ka[i].0<kb[j].0 {i+=1;} else if ka[i].0>kb[j].0 {j+=1;} else { let k=ka[i].0; let i0=i; while i<ka.len()&&ka[i].0==k{i+=1;} let j0=j; while j<kb.len()&&kb[j].0==k{j+=1;}
                for x in i0..i{ for y in j0..j{ let ia=ka[x].1 as usize; let ib=kb[y].1 as usize; let (pa,pb)=(a[ia].1,b[ib].1);
                    let mut ok=true; for u in 0..4 { for w in 0..4 { if pa[u]==pb[w]||pa[4+u]==pb[4+w]{ok=false;} } } // distinct squares across the two lists of one colour
                    if ok { out.push((a[ia].0^b[ib].0, ia as u32, ib as u32)); } } } } }
            out };
        let mut l12=join(&lists[0],&lists[1]); let mut l34=join(&lists[2],&lists[3]); l12.sort_unstable(); l34.sort_unstable();
        let (mut i,mut j)=(0,0); let mut found=0;
        while i<l12.len()&&j<l34.len(){ if l12[i].0<l34[j].0{i+=1;} else if l12[i].0>l34[j].0{j+=1;} else {
            let ps=[lists[0][l12[i].1 as usize].1, lists[1][l12[i].2 as usize].1, lists[2][l34[j].1 as usize].1, lists[3][l34[j].2 as usize].1];
            let mut sa=[[0u64;5];2]; let mut sb=[[0u64;5];2];
            for li in 0..4 { let o=li/2; for u in 0..4 { sa[o][kinds[li][u]]|=1u64<<ps[li][u]; sb[o][kinds[li][u]]|=1u64<<ps[li][4+u]; } }
            if sa!=sb { println!("SOLUTION {:?} {:?} {:?} {:?}",ps[0],ps[1],ps[2],ps[3]); found+=1; } // boards really differ
            j+=1; } }
        eprintln!("attempt {} l12 {} l34 {} found {}",attempt,l12.len(),l34.len(),found);
        if found>0 { break; }
    }
}
