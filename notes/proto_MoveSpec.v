Require Import Bits.
From Coq Require Import NArith ZArith List Lia Bool ZifyBool ZifyN.
Import ListNotations.
Open Scope N_scope.
Ltac Zify.zify_post_hook ::= Z.div_mod_to_equations.

Inductive dir := Up | Right | Down | Left.
Definition shift_in_direction bits d := match d with Up => shr bits 8 | Right => shl bits 1 | Down => shl bits 8 | Left => shr bits 1 end.
Definition shift_piece pb src d := N.lor (shift_in_direction (N.land pb src) d) (N.land pb (bnot src)).
Definition adj i d : option N :=
  match d with
  | Up => if 8 <=? i then Some (i-8) else None
  | Right => if i mod 8 =? 7 then None else Some (i+1)
  | Down => if i <? 56 then Some (i+8) else None
  | Left => if i mod 8 =? 0 then None else Some (i-1) end.

Lemma pow2_bit s i : N.testbit (2^s) i = (s =? i).
Proof. apply N.pow2_bits_eqb. Qed.

Lemma shift_piece_spec pb s d t i : wf64 pb -> s < 64 -> adj s d = Some t ->
  N.testbit (shift_piece pb (2^s) d) i = ((i =? t) && N.testbit pb s) || (negb (i =? s) && N.testbit pb i).
Proof.
  intros Hpb Hs Hadj.
  assert (Hhigh: 64 <= i -> N.testbit pb i = false) by (apply wf64_high; exact Hpb).
  unfold shift_piece, shift_in_direction, adj in *.
  destruct d; rewrite N.lor_spec, ?shr_spec, ?shl_spec, !N.land_spec, bnot_spec, !pow2_bit.
  - destruct (8 <=? s) eqn:E; [|discriminate]. injection Hadj as <-.
    destruct (N.eq_dec s (i + 8)) as [->|Hne].
    + destruct (N.testbit pb (i+8)), (N.testbit pb i); lia.
    + destruct (N.ltb_spec i 64); [|rewrite (Hhigh ltac:(lia))]; destruct (N.testbit pb (i+8)); try destruct (N.testbit pb i); lia.
  - destruct (s mod 8 =? 7) eqn:E; [discriminate|]. injection Hadj as <-.
    destruct (N.eq_dec i (s+1)) as [->|Hne].
    + replace (s + 1 - 1) with s by lia. destruct (N.testbit pb s), (N.testbit pb (s+1)); lia.
    + destruct (N.ltb_spec i 64); [|rewrite (Hhigh ltac:(lia))]; destruct (N.testbit pb (i-1)); try destruct (N.testbit pb i); lia.
  - destruct (s <? 56) eqn:E; [|discriminate]. injection Hadj as <-.
    destruct (N.eq_dec i (s+8)) as [->|Hne].
    + replace (s + 8 - 8) with s by lia. destruct (N.testbit pb s), (N.testbit pb (s+8)); lia.
    + destruct (N.ltb_spec i 64); [|rewrite (Hhigh ltac:(lia))]; destruct (N.testbit pb (i-8)); try destruct (N.testbit pb i); lia.
  - destruct (s mod 8 =? 0) eqn:E; [discriminate|]. injection Hadj as <-.
    destruct (N.eq_dec s (i + 1)) as [->|Hne].
    + destruct (N.testbit pb (i+1)), (N.testbit pb i); lia.
    + destruct (N.ltb_spec i 64); [|rewrite (Hhigh ltac:(lia))]; destruct (N.testbit pb (i+1)); try destruct (N.testbit pb i); lia.
Qed.
Print Assumptions shift_piece_spec.
