Require Import GenZobrist.
From Coq Require Import NArith List Bool.
Import ListNotations. Open Scope N_scope.
Fixpoint all_distinct (l : list N) : bool := match l with [] => true | x :: r => negb (existsb (N.eqb x) r) && all_distinct r end.
Definition status_values := 0 :: concat PUSH_VALUES ++ concat POSSIBLE_PULL_VALUES.
Lemma status_distinct : all_distinct status_values = true /\ length status_values = 641%nat.
Proof. split; vm_compute; reflexivity. Qed.
Definition col {A} (d:A) (t : list (list A)) (i : nat) := map (fun r => nth i r d) t.
Lemma per_square_distinct : forallb (fun i => all_distinct (0 :: col 0 SQUARE_VALUES i)) (seq 0 64) = true.
Proof. vm_compute; reflexivity. Qed.
Lemma per_kind_distinct : forallb all_distinct SQUARE_VALUES = true /\ length SQUARE_VALUES = 12%nat /\ forallb (fun r => Nat.eqb (length r) 64) SQUARE_VALUES = true.
Proof. repeat split; vm_compute; reflexivity. Qed.
Lemma steps_distinct : all_distinct STEP_VALUES = true /\ PLAYER_TO_MOVE <> 0.
Proof. split; [vm_compute; reflexivity | discriminate]. Qed.
Print Assumptions status_distinct.
