From Coq Require Import NArith List Lia Bool.
Import ListNotations.
Open Scope N_scope.

Definition M64 : N := 18446744073709551615.
Definition bnot (x : N) : N := N.ldiff M64 x.
Definition shl (x k : N) : N := N.land (N.shiftl x k) M64.
Definition shr (x k : N) : N := N.shiftr x k.

Definition TOP : N := 255.
Definition BOTTOM : N := 18374686479671623680.
Definition LEFTC : N := 72340172838076673.
Definition RIGHTC : N := 9259542123273814144.

Definition sp_up x := shr (N.land x (bnot TOP)) 8.
Definition sp_down x := shl (N.land x (bnot BOTTOM)) 8.
Definition sp_left x := shr (N.land x (bnot LEFTC)) 1.
Definition sp_right x := shl (N.land x (bnot RIGHTC)) 1.

Lemma M64_spec i : N.testbit M64 i = (i <? 64).
Proof.
  change M64 with (N.ones 64).
  destruct (N.ltb_spec i 64).
  - apply N.ones_spec_low; lia.
  - apply N.ones_spec_high; lia.
Qed.

Lemma bnot_spec x i : N.testbit (bnot x) i = (i <? 64) && negb (N.testbit x i).
Proof. unfold bnot. rewrite N.ldiff_spec, M64_spec. reflexivity. Qed.

Lemma shl_spec x k i : N.testbit (shl x k) i = (i <? 64) && (k <=? i) && N.testbit x (i - k).
Proof.
  unfold shl. rewrite N.land_spec, M64_spec.
  destruct (N.leb_spec k i).
  - rewrite N.shiftl_spec_high' by lia. destruct (i <? 64), (N.testbit x (i-k)); reflexivity.
  - rewrite N.shiftl_spec_low by lia. destruct (i <? 64); reflexivity.
Qed.

Lemma shr_spec x k i : N.testbit (shr x k) i = N.testbit x (i + k).
Proof. unfold shr. apply N.shiftr_spec'. Qed.

Fixpoint forall_below (n : nat) (p : N -> bool) : bool :=
  match n with O => true | S k => p (N.of_nat k) && forall_below k p end.
Lemma forall_below_spec n p : forall_below n p = true -> forall i, i < N.of_nat n -> p i = true.
Proof.
  induction n as [|n IH]; intros H i Hi; [lia|].
  simpl in H. apply andb_true_iff in H as [H1 H2].
  destruct (N.eq_dec i (N.of_nat n)) as [->|Hne]; [exact H1|]. apply IH; [exact H2|lia].
Qed.

Definition wf64 x := x <= M64.
Lemma wf64_high x i : wf64 x -> 64 <= i -> N.testbit x i = false.
Proof.
  intros Hx Hi. destruct (N.eq_dec x 0) as [->|Hz]; [apply N.bits_0|].
  apply N.bits_above_log2. unfold wf64, M64 in Hx.
  assert (N.log2 x < 64); [|lia]. apply N.log2_lt_pow2; [lia|]. change (2^64) with 18446744073709551616. lia.
Qed.

Lemma mask_spec m p :
  forall_below 64 (fun i => Bool.eqb (N.testbit m i) (p i)) = true -> wf64 m ->
  forall i, N.testbit m i = (i <? 64) && p i.
Proof.
  intros H Hm i. destruct (N.ltb_spec i 64) as [Hi|Hi].
  - apply (forall_below_spec 64 _ H i) in Hi. apply Bool.eqb_prop in Hi. exact Hi.
  - apply wf64_high; assumption.
Qed.

Lemma TOP_spec i : N.testbit TOP i = (i <? 64) && (i <? 8).
Proof. apply (mask_spec TOP (fun i => i <? 8)); [vm_compute; reflexivity | unfold wf64, TOP, M64; lia]. Qed.
Lemma BOTTOM_spec i : N.testbit BOTTOM i = (i <? 64) && (56 <=? i).
Proof. apply (mask_spec BOTTOM (fun i => 56 <=? i)); [vm_compute; reflexivity | unfold wf64, BOTTOM, M64; lia]. Qed.
Lemma LEFTC_spec i : N.testbit LEFTC i = (i <? 64) && (i mod 8 =? 0).
Proof. apply (mask_spec LEFTC (fun i => i mod 8 =? 0)); [vm_compute; reflexivity | unfold wf64, LEFTC, M64; lia]. Qed.
Lemma RIGHTC_spec i : N.testbit RIGHTC i = (i <? 64) && (i mod 8 =? 7).
Proof. apply (mask_spec RIGHTC (fun i => i mod 8 =? 7)); [vm_compute; reflexivity | unfold wf64, RIGHTC, M64; lia]. Qed.


Require Import ZArith ZifyBool ZifyN.
Ltac Zify.zify_post_hook ::= Z.div_mod_to_equations.

Ltac bool_lia :=
  repeat match goal with
  | |- context [N.testbit ?x ?i] => 
      let b := fresh "b" in generalize (N.testbit x i); intro b
  end; lia.

Lemma sp_up_spec x i : N.testbit (sp_up x) i = (i + 8 <? 64) && N.testbit x (i + 8).
Proof.
  unfold sp_up. rewrite shr_spec, N.land_spec, bnot_spec, TOP_spec.
  destruct (N.testbit x (i+8)); lia.
Qed.

Lemma sp_down_spec x i : N.testbit (sp_down x) i = (i <? 64) && (8 <=? i) && N.testbit x (i - 8).
Proof.
  unfold sp_down. rewrite shl_spec, N.land_spec, bnot_spec, BOTTOM_spec.
  destruct (N.testbit x (i-8)); lia.
Qed.

Lemma sp_right_spec x i : N.testbit (sp_right x) i = (i <? 64) && negb (i mod 8 =? 0) && N.testbit x (i - 1).
Proof.
  unfold sp_right. rewrite shl_spec, N.land_spec, bnot_spec, RIGHTC_spec.
  destruct (N.testbit x (i-1)); lia.
Qed.

Lemma sp_left_spec x i : N.testbit (sp_left x) i = (i + 1 <? 64) && negb (i mod 8 =? 7) && N.testbit x (i + 1).
Proof.
  unfold sp_left. rewrite shr_spec, N.land_spec, bnot_spec, LEFTC_spec.
  destruct (N.testbit x (i+1)); lia.
Qed.

Definition supported b := N.lor (N.lor (N.lor (N.land b (sp_up b)) (N.land b (sp_right b))) (N.land b (sp_down b))) (N.land b (sp_left b)).

(* abstract neighbours *)
Definition nbrs (i : N) : list N :=
  (if i + 8 <? 64 then [i+8] else []) ++ (if negb (i mod 8 =? 0) then [i-1] else []) ++
  (if 8 <=? i then [i-8] else []) ++ (if negb (i mod 8 =? 7) then [i+1] else []).

Lemma supported_spec b i : i < 64 ->
  N.testbit (supported b) i = N.testbit b i && existsb (N.testbit b) (nbrs i).
Proof.
  intros Hi. unfold supported, nbrs.
  rewrite !N.lor_spec, !N.land_spec, sp_up_spec, sp_down_spec, sp_left_spec, sp_right_spec.
  rewrite !existsb_app.
  destruct (N.testbit b i); cbn [andb orb]; [|reflexivity].
  destruct (i + 8 <? 64) eqn:E1, (i mod 8 =? 0) eqn:E2, (8 <=? i) eqn:E3, (i mod 8 =? 7) eqn:E4;
    cbn [negb existsb andb orb app]; 
    try (destruct (N.testbit b (i+8)), (N.testbit b (i-1)), (N.testbit b (i-8)), (N.testbit b (i+1)); cbn; lia).
Qed.
