//! C18: rustc is the oracle for the auto traits. This program compiles iff every public type of
//! the crate is Send + Sync; it is built separately so that a failure does not take the trace
//! harness down with it.
use arimaa_engine_step::*;

// rustc is the oracle for the auto traits: this file does not compile unless they hold
fn assert_send_sync<T: Send + Sync>() {}
fn static_claims() {
    assert_send_sync::<GameState>();
    assert_send_sync::<PieceBoard>();
    assert_send_sync::<PieceBoardState>();
    assert_send_sync::<Action>();
    assert_send_sync::<Zobrist>();
    assert_send_sync::<List<Zobrist>>();
    assert_send_sync::<Phase>();
    assert_send_sync::<PlayPhase>();
    assert_send_sync::<PushPullState>();
    assert_send_sync::<Square>();
    assert_send_sync::<Piece>();
    assert_send_sync::<Direction>();
    assert_send_sync::<Terminal>();
    // the borrowed iterator over a history list: a scoped worker may continue a scan started elsewhere
    assert_send_sync::<Iter<'static, Zobrist>>();
}


fn main() {
    static_claims();
    println!("SENDSYNC ok types=14");
}
