//! C18: concurrent expansion of shared states against sequential expansion.
#![allow(dead_code)]
#[path = "../enc.rs"]
mod enc;
#[path = "../gens.rs"]
mod gens;
#[path = "../stack.rs"]
mod stack;
use enc::*;
use gens::*;
use arimaa_engine_step::*;
use std::sync::atomic::{AtomicUsize, Ordering};
use std::sync::Arc;

fn fnv(h: &mut u64, v: u64) {
    *h = (*h ^ v).wrapping_mul(0x100000001b3);
}

/// digest of everything an expander reads from a shared state
fn expand_digest(gs: &GameState) -> u64 {
    let mut h = 0xcbf29ce484222325u64;
    for v in enc_state(gs) {
        fnv(&mut h, v);
    }
    fnv(&mut h, gs.transposition_hash());
    fnv(&mut h, enc_terminal(&gs.is_terminal()));
    let acts = gs.valid_actions();
    for a in acts.iter() {
        fnv(&mut h, enc_action(a));
        fnv(&mut h, enc_preview(gs.trapped_animal_for_action(a)));
        let n = gs.take_action(a);
        for v in enc_state(&n) {
            fnv(&mut h, v);
        }
        fnv(&mut h, n.transposition_hash());
        fnv(&mut h, n.valid_actions().len() as u64);
    }
    for a in gs.valid_actions_no_rep() {
        fnv(&mut h, enc_action(&a));
    }
    fnv(&mut h, format!("{}", gs).len() as u64);
    h
}

pub fn conc_main(a: &[String]) {
    // conc <seed> <threads> <roots>
    let seed: u64 = a[0].parse().unwrap();
    let threads: usize = a[1].parse().unwrap();
    let roots: u64 = a[2].parse().unwrap();
    let mut rng = Rng::new(seed, "conc", 0);
    // shared states: random positions played forward so that histories (the Arc list) are shared too
    let mut states: Vec<GameState> = vec![];
    while (states.len() as u64) < roots {
        let clustered = rng.chance(1, 2);
        let cells = random_position(&mut rng, 4, 24, clustered);
        let text = diagram(&cells, 2, rng.chance(1, 2));
        if let Ok(Ok(mut gs)) = parse_state_guarded(&text) {
            for _ in 0..rng.below(30) {
                if gs.current_step() == 0 && gs.is_terminal().is_some() {
                    break;
                }
                let acts = gs.valid_actions();
                if acts.is_empty() {
                    break;
                }
                states.push(gs.clone());
                gs = gs.take_action(&choose(&mut rng, &gs, &acts, 15));
            }
            states.push(gs);
        }
    }
    // repetition-rich states: two pieces shuttling back and forth so that positions recur and the repetition filters
    // (which walk the shared history list) withhold some actions; these are expanded many times by every thread
    let n_plain = states.len();
    let mut withheld_states = 0u64;
    let mut hot: Vec<usize> = vec![];
    for k in 0..(roots / 8).max(8) {
        let mut cells: [Cell; 64] = [None; 64];
        let a = (2 + rng.below(4) as usize) * 8 + 1 + rng.below(6) as usize;
        let b = (2 + rng.below(4) as usize) * 8 + 1 + rng.below(6) as usize;
        if a == b || TRAPS.contains(&a) || TRAPS.contains(&b) || nbrs(a).contains(&b) {
            continue;
        }
        cells[a] = Some((true, KINDS[1 + rng.below(5) as usize]));
        cells[b] = Some((false, KINDS[1 + rng.below(5) as usize]));
        for (sq, g) in [(6 * 8, true), (8 + 7, false)] {
            if cells[sq].is_none() {
                cells[sq] = Some((g, Piece::Rabbit));
            }
        }
        let text = diagram(&cells, 2, k % 2 == 0);
        if let Ok(Ok(mut gs)) = parse_state_guarded(&text) {
            let mut last: [Option<Action>; 2] = [None, None];
            for _ in 0..40 {
                if gs.current_step() == 0 && gs.is_terminal().is_some() {
                    break;
                }
                let acts = gs.valid_actions();
                if acts.is_empty() {
                    break;
                }
                if acts.len() != gs.valid_actions_no_rep().len() {
                    withheld_states += 1;
                    hot.push(states.len());
                }
                states.push(gs.clone());
                let side = gs.is_p1_turn_to_move() as usize;
                let a = if gs.current_step() >= 1 && acts.contains(&Action::Pass) && rng.chance(3, 4) {
                    Action::Pass
                } else {
                    let undo = last[side].and_then(|x| {
                        if let Action::Move(sq, d) = x {
                            let i = sq.index() as i32;
                            let (j, od) = match d {
                                Direction::Up => (i - 8, Direction::Down),
                                Direction::Down => (i + 8, Direction::Up),
                                Direction::Left => (i - 1, Direction::Right),
                                Direction::Right => (i + 1, Direction::Left),
                            };
                            let c = Action::Move(Square::from_index(j as u8), od);
                            if acts.contains(&c) {
                                return Some(c);
                            }
                        }
                        None
                    });
                    let quiet: Vec<Action> = acts.iter().cloned().filter(|x| matches!(x, Action::Move(sq, _) if gs.piece_board().bits_by_piece_type(Piece::Rabbit) & (1u64 << sq.index()) == 0)).collect();
                    let pick = match undo {
                        Some(u) if rng.chance(4, 5) => u,
                        _ if !quiet.is_empty() => quiet[rng.below(quiet.len() as u64) as usize],
                        _ => acts[rng.below(acts.len() as u64) as usize],
                    };
                    if gs.current_step() == 0 {
                        last[side] = Some(pick);
                    }
                    pick
                };
                gs = gs.take_action(&a);
            }
            states.push(gs);
        }
    }
    let n_rep = states.len() - n_plain;
    let sequential: Vec<u64> = states.iter().map(expand_digest).collect();
    hot.truncate(48);
    let hot = Arc::new(hot);
    let shared = Arc::new(states);
    let seq = Arc::new(sequential);
    let mism = Arc::new(AtomicUsize::new(0));
    let done = Arc::new(AtomicUsize::new(0));
    let mut handles = vec![];
    for t in 0..threads {
        let shared = Arc::clone(&shared);
        let seq = Arc::clone(&seq);
        let mism = Arc::clone(&mism);
        let done = Arc::clone(&done);
        let hot = Arc::clone(&hot);
        handles.push(std::thread::spawn(move || {
            let n = shared.len();
            // every thread expands every shared state, each in a different order, while holding
            // clones (shared Arc history nodes) that are dropped concurrently
            let mut order: Vec<usize> = (0..n).collect();
            let mut r = Rng(t as u64 * 7919 + 1);
            for i in (1..n).rev() {
                let j = r.below(i as u64 + 1) as usize;
                order.swap(i, j);
            }
            let mut first_bad: Option<usize> = None;
            // all threads hammer the same state at the same time: the states in which the repetition filter withholds
            // an action (one queried position is in the history twice, another is not), and the states around them
            for &hi in hot.iter() {
                for rep in 0..400usize {
                    let i = (hi + rep % 3).min(n - 1);
                    let d = expand_digest(&shared[i]);
                    if d != seq[i] {
                        mism.fetch_add(1, Ordering::SeqCst);
                        if first_bad.is_none() {
                            first_bad = Some(i);
                        }
                    }
                    done.fetch_add(1, Ordering::SeqCst);
                }
            }
            // the repetition-rich states many times over, interleaved by a per-thread stride
            for round in 0..20usize {
                for k in 0..(n - n_plain) {
                    let i = n_plain + (k * (2 * t + 1) + round) % (n - n_plain).max(1);
                    if i >= n {
                        continue;
                    }
                    let d = expand_digest(&shared[i]);
                    if d != seq[i] {
                        mism.fetch_add(1, Ordering::SeqCst);
                        if first_bad.is_none() {
                            first_bad = Some(i);
                        }
                    }
                    done.fetch_add(1, Ordering::SeqCst);
                }
            }
            for &i in order.iter() {
                let local = shared[i].clone();
                let d = expand_digest(&shared[i]);
                let d2 = expand_digest(&local);
                if d != seq[i] || d2 != seq[i] {
                    mism.fetch_add(1, Ordering::SeqCst);
                    if first_bad.is_none() {
                        first_bad = Some(i);
                    }
                }
                done.fetch_add(1, Ordering::SeqCst);
                drop(local);
            }
            first_bad
        }));
    }
    let mut first_bad: Option<usize> = None;
    for h in handles {
        match h.join() {
            Ok(Some(i)) => first_bad = first_bad.or(Some(i)),
            Ok(None) => {}
            Err(_) => {
                mism.fetch_add(1, Ordering::SeqCst);
            }
        }
    }
    let sample = format!("{}", shared[0]).replace('\n', "/");
    println!(
        "{{\"threads\":{},\"shared_states\":{},\"repetition_rich_states\":{},\"states_with_withheld_actions\":{},\"expansions\":{},\"mismatches\":{},\"first_bad\":{},\"sample\":{:?}}}",
        threads,
        shared.len(),
        n_rep,
        withheld_states,
        done.load(Ordering::SeqCst),
        mism.load(Ordering::SeqCst),
        first_bad.map(|i| i as i64).unwrap_or(-1),
        sample
    );
    if let Some(i) = first_bad {
        println!("BAD {}", format!("{}", shared[i]).replace('\n', "/"));
    }
}


fn main() {
    let args: Vec<String> = std::env::args().collect();
    if args.len() > 1 && args[1] == "stack" {
        stack::stack_main(&args[2..]);
    } else {
        conc_main(&args[1..]);
    }
}
