//! C18: concurrent expansion of shared states against sequential expansion.
#![allow(dead_code)]
#[path = "../enc.rs"]
mod enc;
#[path = "../gens.rs"]
mod gens;
#[path = "../stack.rs"]
mod stack;
use enc::*;
use gens::*;
use arimaa_engine_step::*;
use std::sync::atomic::{AtomicUsize, Ordering};
use std::sync::Arc;

fn fnv(h: &mut u64, v: u64) {
    *h = (*h ^ v).wrapping_mul(0x100000001b3);
}

/// digest of everything an expander reads from a shared state
fn expand_digest(gs: &GameState) -> u64 {
    let mut h = 0xcbf29ce484222325u64;
    for v in enc_state(gs) {
        fnv(&mut h, v);
    }
    fnv(&mut h, gs.transposition_hash());
    fnv(&mut h, enc_terminal(&gs.is_terminal()));
    let acts = gs.valid_actions();
    for a in acts.iter() {
        fnv(&mut h, enc_action(a));
        fnv(&mut h, enc_preview(gs.trapped_animal_for_action(a)));
        let n = gs.take_action(a);
        for v in enc_state(&n) {
            fnv(&mut h, v);
        }
        fnv(&mut h, n.transposition_hash());
        fnv(&mut h, n.valid_actions().len() as u64);
    }
    for a in gs.valid_actions_no_rep() {
        fnv(&mut h, enc_action(&a));
    }
    fnv(&mut h, format!("{}", gs).len() as u64);
    h
}

pub fn conc_main(a: &[String]) {
    // conc <seed> <threads> <roots>
    let seed: u64 = a[0].parse().unwrap();
    let threads: usize = a[1].parse().unwrap();
    let roots: u64 = a[2].parse().unwrap();
    let mut rng = Rng::new(seed, "conc", 0);
    // shared states: random positions played forward so that histories (the Arc list) are shared too
    let mut states: Vec<GameState> = vec![];
    while (states.len() as u64) < roots {
        let clustered = rng.chance(1, 2);
        let cells = random_position(&mut rng, 4, 24, clustered);
        let text = diagram(&cells, 2, rng.chance(1, 2));
        if let Ok(Ok(mut gs)) = parse_state_guarded(&text) {
            for _ in 0..rng.below(30) {
                if gs.current_step() == 0 && gs.is_terminal().is_some() {
                    break;
                }
                let acts = gs.valid_actions();
                if acts.is_empty() {
                    break;
                }
                states.push(gs.clone());
                gs = gs.take_action(&choose(&mut rng, &gs, &acts, 15));
            }
            states.push(gs);
        }
    }
    let sequential: Vec<u64> = states.iter().map(expand_digest).collect();
    let shared = Arc::new(states);
    let seq = Arc::new(sequential);
    let mism = Arc::new(AtomicUsize::new(0));
    let done = Arc::new(AtomicUsize::new(0));
    let mut handles = vec![];
    for t in 0..threads {
        let shared = Arc::clone(&shared);
        let seq = Arc::clone(&seq);
        let mism = Arc::clone(&mism);
        let done = Arc::clone(&done);
        handles.push(std::thread::spawn(move || {
            let n = shared.len();
            // every thread expands every shared state, each in a different order, while holding
            // clones (shared Arc history nodes) that are dropped concurrently
            let mut order: Vec<usize> = (0..n).collect();
            let mut r = Rng(t as u64 * 7919 + 1);
            for i in (1..n).rev() {
                let j = r.below(i as u64 + 1) as usize;
                order.swap(i, j);
            }
            let mut first_bad: Option<usize> = None;
            for &i in order.iter() {
                let local = shared[i].clone();
                let d = expand_digest(&shared[i]);
                let d2 = expand_digest(&local);
                if d != seq[i] || d2 != seq[i] {
                    mism.fetch_add(1, Ordering::SeqCst);
                    if first_bad.is_none() {
                        first_bad = Some(i);
                    }
                }
                done.fetch_add(1, Ordering::SeqCst);
                drop(local);
            }
            first_bad
        }));
    }
    let mut first_bad: Option<usize> = None;
    for h in handles {
        match h.join() {
            Ok(Some(i)) => first_bad = first_bad.or(Some(i)),
            Ok(None) => {}
            Err(_) => {
                mism.fetch_add(1, Ordering::SeqCst);
            }
        }
    }
    let sample = format!("{}", shared[0]).replace('\n', "/");
    println!(
        "{{\"threads\":{},\"shared_states\":{},\"expansions\":{},\"mismatches\":{},\"first_bad\":{},\"sample\":{:?}}}",
        threads,
        shared.len(),
        done.load(Ordering::SeqCst),
        mism.load(Ordering::SeqCst),
        first_bad.map(|i| i as i64).unwrap_or(-1),
        sample
    );
    if let Some(i) = first_bad {
        println!("BAD {}", format!("{}", shared[i]).replace('\n', "/"));
    }
}


fn main() {
    let args: Vec<String> = std::env::args().collect();
    if args.len() > 1 && args[1] == "stack" {
        stack::stack_main(&args[2..]);
    } else {
        conc_main(&args[1..]);
    }
}
