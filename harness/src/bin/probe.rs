//! Data probe: see ../dump.rs. Built separately so that it compiles whenever the crate and its hooks do.
#[path = "../dump.rs"]
mod dump;

fn main() {
    std::panic::set_hook(Box::new(|_| {}));
    dump::main();
}
