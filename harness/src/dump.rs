//! `verif_harness dump`: the data the Coq model is parameterised by, obtained by RUNNING the crate
//! (compiled constants through the verif_hooks module, everything else through the public API), so
//! that behaviour-preserving rewrites of the source do not disturb the translation.
use arimaa_engine_step::verif_hooks as vh;
use arimaa_engine_step::*;
use std::panic::{catch_unwind, AssertUnwindSafe};
use std::str::FromStr;

const PIECES: [Piece; 6] = [Piece::Rabbit, Piece::Cat, Piece::Dog, Piece::Horse, Piece::Camel, Piece::Elephant];
const DIRS: [Direction; 4] = [Direction::Up, Direction::Right, Direction::Down, Direction::Left];

fn pname(p: Piece) -> &'static str {
    match p {
        Piece::Rabbit => "Rabbit",
        Piece::Cat => "Cat",
        Piece::Dog => "Dog",
        Piece::Horse => "Horse",
        Piece::Camel => "Camel",
        Piece::Elephant => "Elephant",
    }
}
fn dname(d: Direction) -> &'static str {
    match d {
        Direction::Up => "Up",
        Direction::Right => "Right",
        Direction::Down => "Down",
        Direction::Left => "Left",
    }
}
fn list<T: std::fmt::Display>(v: &[T]) -> String {
    format!("[{}]", v.iter().map(|x| x.to_string()).collect::<Vec<_>>().join(","))
}
fn strs(v: &[String]) -> String {
    format!("[{}]", v.join(","))
}
fn q(s: &str) -> String {
    format!("\"{}\"", s)
}
fn table(t: &[Vec<u64>]) -> String {
    strs(&t.iter().map(|r| list(r)).collect::<Vec<_>>())
}
fn find_row(t: &[Vec<u64>], f: &dyn Fn(u8) -> u64) -> i64 {
    // the row r with t[r][sq] == f(sq) for all 64 squares; -1 if none or ambiguous
    let mut found: i64 = -1;
    for (r, row) in t.iter().enumerate() {
        if (0..64u8).all(|sq| row[sq as usize] == f(sq)) {
            if found >= 0 {
                return -1;
            }
            found = r as i64;
        }
    }
    found
}

pub fn main() {
    let mut o: Vec<String> = vec![];
    // compiled constants
    let masks: Vec<String> = vh::masks().iter().map(|(n, v)| format!("{}:{}", q(n), v)).collect();
    o.push(format!("\"masks\":{{{}}}", masks.join(",")));
    o.push(format!("\"board_width\":{},\"board_height\":{}", BOARD_WIDTH, BOARD_HEIGHT));
    let names: Vec<&str> = vh::shifts(0).iter().map(|(n, _)| *n).collect();
    let mut sh: Vec<String> = vec![];
    for (k, n) in names.iter().enumerate() {
        let imgs: Vec<u64> = (0..64).map(|b| vh::shifts(1u64 << b)[k].1).collect();
        sh.push(format!("{}:{}", q(n), list(&imgs)));
    }
    o.push(format!("\"shifts\":{{{}}}", sh.join(",")));
    // linearity probes: images of a few multi-bit words, to be compared with the OR of the single-bit images
    let probes: [u64; 4] = [u64::MAX, 0x8100_0000_0000_0081, 0x00ff_00ff_00ff_00ff, 0xaaaa_5555_aaaa_5555];
    let mut pr: Vec<String> = vec![];
    for x in probes {
        let v: Vec<u64> = vh::shifts(x).iter().map(|(_, y)| *y).collect();
        pr.push(format!("[{},{}]", x, list(&v)));
    }
    o.push(format!("\"shift_probes\":{}", strs(&pr)));
    let (init, ptm) = vh::zobrist_scalars();
    o.push(format!("\"INITIAL\":{},\"PLAYER_TO_MOVE\":{}", init, ptm));
    o.push(format!("\"STEP_VALUES\":{}", list(&vh::zobrist_steps())));
    let sqv = vh::zobrist_square_values();
    let puv = vh::zobrist_push_values();
    let plv = vh::zobrist_pull_values();
    o.push(format!("\"SQUARE_VALUES\":{}", table(&sqv)));
    o.push(format!("\"PUSH_VALUES\":{}", table(&puv)));
    o.push(format!("\"POSSIBLE_PULL_VALUES\":{}", table(&plv)));
    // index maps of zobrist.rs, recovered from the lookups themselves
    let mut idx: Vec<String> = vec![];
    for p in PIECES {
        let i1 = find_row(&sqv, &|sq| vh::zobrist_piece_value(Square::from_index(sq), p, true));
        let i2 = find_row(&sqv, &|sq| vh::zobrist_piece_value(Square::from_index(sq), p, false));
        let push = catch_unwind(AssertUnwindSafe(|| find_row(&puv, &|sq| vh::zobrist_push_piece_value(Square::from_index(sq), p)))).unwrap_or(-2);
        let pull = catch_unwind(AssertUnwindSafe(|| find_row(&plv, &|sq| vh::zobrist_pull_piece_value(Square::from_index(sq), p)))).unwrap_or(-2);
        idx.push(format!("{}:[{},{},{},{}]", q(pname(p)), i1, i2, push, pull));
    }
    o.push(format!("\"piece_idx\":{{{}}}", idx.join(",")));
    // enumerations through the public API
    o.push(format!("\"piece_all\":{}", strs(&Piece::ALL.iter().map(|p| q(pname(*p))).collect::<Vec<_>>())));
    o.push(format!("\"dir_all\":{}", strs(&Direction::ALL.iter().map(|d| q(dname(*d))).collect::<Vec<_>>())));
    let mut ps = PIECES.to_vec();
    ps.sort();
    o.push(format!("\"piece_order\":{}", strs(&ps.iter().map(|p| q(pname(*p))).collect::<Vec<_>>())));
    let mut ds = DIRS.to_vec();
    ds.sort();
    o.push(format!("\"dir_order\":{}", strs(&ds.iter().map(|d| q(dname(*d))).collect::<Vec<_>>())));
    let pl: Vec<String> = PIECES.iter().map(|p| format!("{}:{}", q(pname(*p)), format!("{}", p).chars().next().unwrap() as u32)).collect();
    o.push(format!("\"piece_letter\":{{{}}}", pl.join(",")));
    let dl: Vec<String> = DIRS.iter().map(|d| format!("{}:{}", q(dname(*d)), format!("{}", d).chars().next().unwrap() as u32)).collect();
    o.push(format!("\"dir_letter\":{{{}}}", dl.join(",")));
    let ul: Vec<String> = PIECES.iter().map(|p| format!("{}:{}", q(pname(*p)), convert_piece_to_letter(p, true).chars().next().unwrap() as u32)).collect();
    o.push(format!("\"diagram_upper_letter\":{{{}}}", ul.join(",")));
    // parser tables: every code point below 0x3000 plus a few beyond, through the public parsers
    let mut cps: Vec<u32> = (1..0x3000u32).collect();
    cps.extend([0xff25, 0xff45, 0x1d404, 0x1f600]);
    let mut pt: Vec<String> = vec![];
    let mut dt: Vec<String> = vec![];
    let mut gt: Vec<String> = vec![];
    let mut gold_mismatch: Vec<u32> = vec![];
    for cp in cps {
        let c = match char::from_u32(cp) {
            Some(c) => c,
            None => continue,
        };
        let s = c.to_string();
        if let Ok(p) = Piece::from_str(&s) {
            pt.push(format!("[{},{}]", cp, q(pname(p))));
        }
        if let Ok(d) = Direction::from_str(&s) {
            dt.push(format!("[{},{}]", cp, q(dname(d))));
        }
        if c != '|' {
            // a one-cell diagram: the character in the a8 position
            let text = format!("2g\n8| {} |", s);
            if let Ok(Ok(gs)) = catch_unwind(AssertUnwindSafe(|| GameState::from_str(&text))) {
                let b = gs.piece_board();
                if b.all_pieces & 1 != 0 {
                    let p = b.piece_type_at_square(&Square::from_index(0)).unwrap();
                    gt.push(format!("[{},{}]", cp, q(pname(p))));
                    let gold = b.p1_pieces & 1 != 0;
                    if gold != (cp >= 65 && cp <= 90) {
                        gold_mismatch.push(cp);
                    }
                }
            }
        }
    }
    o.push(format!("\"piece_of_letter\":{}", strs(&pt)));
    o.push(format!("\"dir_of_letter\":{}", strs(&dt)));
    o.push(format!("\"diagram_piece_of_letter\":{}", strs(&gt)));
    o.push(format!("\"diagram_gold_mismatch\":{}", list(&gold_mismatch)));
    // diagram printer / parser defaults
    let empty = GameState::from_str("2g\n8|   |").unwrap();
    let printed = format!("{}", empty);
    let body: Vec<char> = printed.split('|').enumerate().filter(|(i, _)| i % 2 == 1).flat_map(|(_, s)| s.chars().enumerate().filter(|(i, _)| i % 2 == 1).map(|(_, c)| c).collect::<Vec<_>>()).collect();
    let traps: Vec<usize> = body.iter().enumerate().filter(|(_, c)| **c == 'x').map(|(i, _)| i).collect();
    o.push(format!("\"trap_indices\":{}", list(&traps)));
    o.push(format!("\"printed_cells\":{}", body.len()));
    let nohdr = GameState::from_str(" +--+\n8|   |").unwrap();
    o.push(format!("\"default_move\":{},\"default_p1\":{}", nohdr.move_number(), nohdr.is_p1_turn_to_move()));
    let mut silver: Vec<u32> = vec![];
    let mut side_letters: Vec<u32> = vec![];
    for cp in 32..127u32 {
        let c = char::from_u32(cp).unwrap();
        let text = format!("7{}\n8|   |", c);
        if let Ok(gs) = GameState::from_str(&text) {
            if gs.move_number() == 7 {
                side_letters.push(cp);
                if !gs.is_p1_turn_to_move() {
                    silver.push(cp);
                }
            }
        }
    }
    o.push(format!("\"side_letters\":{},\"silver_letters\":{}", list(&side_letters), list(&silver)));
    o.push(format!("\"ascii_a\":{}", Square::from_index(0).column_char() as u32));
    println!("{{{}}}", o.join(","));
}
