//! Encoders of the numeric trace protocol (mirror of coq/model/Trace.v) and the observation
//! block printed for every watched state.
use arimaa_engine_step::*;
use std::fmt::Write as _;
use std::hash::{Hash, Hasher};
use std::panic::{catch_unwind, AssertUnwindSafe};
use std::str::FromStr;

pub struct Cap(pub u64);
impl Hasher for Cap {
    fn write(&mut self, _bytes: &[u8]) {}
    fn write_u64(&mut self, v: u64) {
        self.0 = v;
    }
    fn finish(&self) -> u64 {
        self.0
    }
}

pub fn board_hash(gs: &GameState) -> u64 {
    let mut c = Cap(0);
    gs.hash(&mut c);
    c.0
}

pub fn piece_code(p: Piece) -> u64 {
    match p {
        Piece::Rabbit => 0,
        Piece::Cat => 1,
        Piece::Dog => 2,
        Piece::Horse => 3,
        Piece::Camel => 4,
        Piece::Elephant => 5,
    }
}
pub fn piece_of_code(c: u64) -> Piece {
    match c {
        0 => Piece::Rabbit,
        1 => Piece::Cat,
        2 => Piece::Dog,
        3 => Piece::Horse,
        4 => Piece::Camel,
        _ => Piece::Elephant,
    }
}
pub fn dir_code(d: Direction) -> u64 {
    match d {
        Direction::Up => 0,
        Direction::Right => 1,
        Direction::Down => 2,
        Direction::Left => 3,
    }
}
pub fn dir_of_code(c: u64) -> Direction {
    match c {
        0 => Direction::Up,
        1 => Direction::Right,
        2 => Direction::Down,
        _ => Direction::Left,
    }
}
pub fn enc_action(a: &Action) -> u64 {
    match a {
        Action::Pass => 0,
        Action::Place(p) => 1 + piece_code(*p),
        Action::Move(s, d) => 16 + (s.index() as u64) * 4 + dir_code(*d),
    }
}
pub fn dec_action(n: u64) -> Action {
    if n == 0 {
        Action::Pass
    } else if n < 7 {
        Action::Place(piece_of_code(n - 1))
    } else {
        Action::Move(Square::from_index(((n - 16) / 4) as u8), dir_of_code((n - 16) % 4))
    }
}
pub fn enc_pbs(b: &PieceBoardState) -> [u64; 8] {
    [b.p1_pieces, b.all_pieces, b.elephants, b.camels, b.horses, b.dogs, b.cats, b.rabbits]
}
pub fn enc_terminal(t: &Option<Terminal>) -> u64 {
    match t {
        None => 0,
        Some(Terminal::GoldWin) => 1,
        Some(Terminal::SilverWin) => 2,
    }
}
pub fn enc_state(gs: &GameState) -> Vec<u64> {
    let mut v: Vec<u64> = enc_pbs(gs.piece_board()).to_vec();
    v.push(gs.is_p1_turn_to_move() as u64);
    v.push(gs.move_number() as u64);
    v.push(board_hash(gs));
    match gs.as_play_phase() {
        None => v.push(0),
        Some(pp) => {
            v.push(1);
            match pp.push_pull_state() {
                PushPullState::None => v.extend([0, 0, 0]),
                PushPullState::PossiblePull(s, k) => v.extend([1, s.index() as u64, piece_code(k)]),
                PushPullState::MustCompletePush(s, k) => v.extend([2, s.index() as u64, piece_code(k)]),
            }
            v.push(pp.piece_trapped_this_turn() as u64);
            v.push(pp.verif_initial_hash_of_move().board_state_hash());
            let prev = pp.previous_piece_boards();
            v.push(prev.len() as u64);
            for b in prev {
                v.extend(enc_pbs(b.piece_board()));
            }
            let hh = pp.hash_history();
            let items: Vec<u64> = hh.iter().map(|z| z.board_state_hash()).collect();
            v.push(items.len() as u64);
            v.extend(items);
        }
    }
    v
}

pub fn line(out: &mut String, tag: char, nums: &[u64]) {
    out.push(tag);
    for n in nums {
        let _ = write!(out, " {:x}", n);
    }
    out.push('\n');
}

pub fn codepoints(s: &str) -> Vec<u64> {
    s.chars().map(|c| c as u64).collect()
}
pub fn string_of(cps: &[u64]) -> String {
    cps.iter().map(|c| char::from_u32(*c as u32).unwrap()).collect()
}

/// run `f`; on panic print `X <tag>` instead of the line
fn guarded<F: FnOnce() -> Vec<u64>>(out: &mut String, tag: char, f: F, panics: &mut u64) {
    match catch_unwind(AssertUnwindSafe(f)) {
        Ok(v) => line(out, tag, &v),
        Err(_) => {
            *panics += 1;
            out.push_str("X ");
            out.push(tag);
            out.push('\n');
        }
    }
}

pub fn enc_preview(p: Option<(Square, Piece, bool)>) -> u64 {
    match p {
        None => 0,
        Some((s, k, o)) => 1 + ((s.index() as u64) * 8 + piece_code(k)) * 2 + o as u64,
    }
}

pub fn enc_parse_state(r: std::thread::Result<anyhow_result::R>) -> Vec<u64> {
    match r {
        Err(_) => vec![1],
        Ok(Err(())) => vec![0],
        Ok(Ok(gs)) => {
            let mut v = vec![2];
            v.extend(enc_state(&gs));
            v
        }
    }
}
pub mod anyhow_result {
    pub type R = Result<arimaa_engine_step::GameState, ()>;
}

pub fn parse_state_guarded(s: &str) -> std::thread::Result<anyhow_result::R> {
    catch_unwind(AssertUnwindSafe(|| GameState::from_str(s).map_err(|_| ())))
}

/// kind 0: full observation; kind 1: S, H, F only (constructed, possibly ill-formed states); kind 2: S only
pub fn observe(out: &mut String, gs: &GameState, kind: u64, panics: &mut u64) {
    guarded(out, 'S', || enc_state(gs), panics);
    if kind == 2 {
        return;
    }
    guarded(out, 'H', || vec![gs.transposition_hash()], panics);
    guarded(
        out,
        'F',
        || {
            let step = if gs.is_play_phase() { gs.current_step() } else { 0 };
            vec![Zobrist::from_piece_board(gs.piece_board(), gs.is_p1_turn_to_move(), step).board_state_hash()]
        },
        panics,
    );
    if kind == 1 {
        return;
    }
    guarded(out, 'V', || gs.valid_actions().iter().map(enc_action).collect(), panics);
    let norep = catch_unwind(AssertUnwindSafe(|| gs.valid_actions_no_rep()));
    match &norep {
        Ok(n) => line(out, 'N', &n.iter().map(enc_action).collect::<Vec<_>>()),
        Err(_) => {
            *panics += 1;
            out.push_str("X N\n")
        }
    }
    guarded(
        out,
        'T',
        || {
            vec![
                enc_terminal(&gs.is_terminal()),
                enc_terminal(&gs.has_move(gs.piece_board())),
                gs.can_pass(true) as u64,
                gs.can_pass(false) as u64,
            ]
        },
        panics,
    );
    if let Ok(n) = &norep {
        guarded(out, 'K', || n.iter().map(|a| enc_preview(gs.trapped_animal_for_action(a))).collect(), panics);
    }
    guarded(
        out,
        'W',
        || {
            let b = gs.piece_board();
            let kinds = [Piece::Elephant, Piece::Camel, Piece::Horse, Piece::Dog, Piece::Cat, Piece::Rabbit];
            let mut v = vec![b.player_piece_mask(true), b.player_piece_mask(false)];
            for k in kinds.iter() {
                v.push(b.bits_for_piece(*k, true));
                v.push(b.bits_for_piece(*k, false));
            }
            for k in kinds.iter() {
                v.push(b.bits_by_piece_type(*k));
            }
            v.push(if gs.is_play_phase() { 0 } else { b.placement_bit() });
            v.push(b.trapped_piece_bits());
            for i in 0..64u8 {
                v.push(match b.piece_type_at_square(&Square::from_index(i)) {
                    Some(k) => 1 + piece_code(k),
                    None => 0,
                });
            }
            v
        },
        panics,
    );
    if gs.is_play_phase() {
        let step = gs.current_step();
        for i in 0..=step {
            guarded(
                out,
                'B',
                || {
                    let mut v = vec![i as u64];
                    v.extend(enc_pbs(gs.piece_board_for_step(i)));
                    v
                },
                panics,
            );
        }
    }
    let printed = catch_unwind(AssertUnwindSafe(|| format!("{}", gs)));
    match printed {
        Err(_) => {
            *panics += 1;
            out.push_str("X D\n")
        }
        Ok(text) => {
            line(out, 'D', &codepoints(&text));
            let r = parse_state_guarded(&text);
            let mut e: Vec<u64> = vec![];
            if let Ok(Ok(gs2)) = &r {
                e.push((gs == gs2) as u64);
                e.push(gs2.transposition_hash());
            } else if r.is_err() {
                *panics += 1;
            }
            line(out, 'R', &enc_parse_state(r));
            line(out, 'E', &e);
        }
    }
}

/// string cases
pub fn run_parser(which: u64, s: &str) -> Vec<u64> {
    fn oc<T, F: FnOnce(T) -> Vec<u64>>(r: std::thread::Result<Result<T, ()>>, f: F) -> Vec<u64> {
        match r {
            Err(_) => vec![1],
            Ok(Err(())) => vec![0],
            Ok(Ok(v)) => {
                let mut o = vec![2];
                o.extend(f(v));
                o
            }
        }
    }
    match which {
        0 => oc(catch_unwind(AssertUnwindSafe(|| Action::from_str(s).map_err(|_| ()))), |a| vec![enc_action(&a)]),
        1 => oc(catch_unwind(AssertUnwindSafe(|| Square::from_str(s).map_err(|_| ()))), |q| vec![q.index() as u64]),
        2 => oc(catch_unwind(AssertUnwindSafe(|| Piece::from_str(s).map_err(|_| ()))), |p| vec![piece_code(p)]),
        3 => oc(catch_unwind(AssertUnwindSafe(|| Direction::from_str(s).map_err(|_| ()))), |d| vec![dir_code(d)]),
        _ => enc_parse_state(parse_state_guarded(s)),
    }
}

pub fn run_printer(which: u64, v: u64) -> Vec<u64> {
    let s = match which {
        0 => format!("{}", dec_action(v)),
        1 => format!("{}", Square::from_index(v as u8)),
        2 => format!("{}", piece_of_code(v)),
        _ => format!("{}", dir_of_code(v)),
    };
    codepoints(&s)
}

pub fn run_square_maps(i: u64) -> Vec<u64> {
    let q = Square::from_index(i as u8);
    let bb = q.as_bit_board();
    vec![
        bb,
        Square::from_bit_board(bb).index() as u64,
        q.column_char() as u64,
        q.row() as u64,
        Square::new(q.column_char(), q.row() as usize).index() as u64,
    ]
}
