//! Verification harness: drives the real crate (built from /repo's working tree with the
//! `verif_hooks` feature) and writes traces in the numeric protocol of coq/model/Trace.v.
mod enc;
mod gens;
mod sym;
mod extra;

use gens::*;
use std::io::Write;

fn main() {
    std::panic::set_hook(Box::new(|_| {}));
    let args: Vec<String> = std::env::args().collect();
    if args.len() < 2 {
        eprintln!("usage: verif_harness trace <gen> <seed> <shard> <nshards> <tier> <out> | sym ... | conc ... | stack ...");
        std::process::exit(2);
    }
    match args[1].as_str() {
        "trace" => trace(&args[2..]),
        "sym" => sym::main(&args[2..]),
        "dropprobe" => extra::dropprobe_main(&args[2..]),
        "replay" => replay(&args[2..]),
        _ => {
            eprintln!("unknown command");
            std::process::exit(2);
        }
    }
}

fn dbg_profile() -> bool {
    cfg!(debug_assertions)
}

fn trace(a: &[String]) {
    let gen = a[0].as_str();
    let seed: u64 = a[1].parse().unwrap();
    let shard: u64 = a[2].parse().unwrap();
    let nshards: u64 = a[3].parse().unwrap();
    let thorough = a[4] == "thorough";
    let out = &a[5];
    let mut w = W::new(shard);
    w.out.push_str(&format!("M {}\n", dbg_profile() as u64));
    let mut rng = Rng::new(seed, gen, shard);
    let mul = if thorough { 20 } else { 1 };
    match gen {
        "setup" => {
            g_setup(&mut w, &mut rng, 3 * mul);
            g_setup_prefixes(&mut w, if thorough { 5 } else { 3 }, shard, nshards);
            let mut r2 = Rng::new(seed, "setup-counts", 0);
            g_setup_counts(&mut w, &mut r2, shard, nshards, if thorough { 1 } else { 1 }, if thorough { 1 } else { 2 });
        }
        "play" => g_play(&mut w, &mut rng, 14 * mul, 60),
        "rep" => {
            g_rep(&mut w, &mut rng, 10 * mul, 160);
            let mut r2 = Rng::new(seed, "seek", shard);
            g_seek(&mut w, &mut r2, if thorough { 60 } else { 8 }, 14);
            let mut r3 = Rng::new(seed, "built", shard);
            g_built(&mut w, &mut r3, if thorough { 300 } else { 40 });
            let mut r4 = Rng::new(seed, "trap", shard);
            g_trap(&mut w, &mut r4, if thorough { 150 } else { 20 });
            let mut r5 = Rng::new(seed, "matrix", shard);
            g_matrix(&mut w, &mut r5, if thorough { 12 } else { 2 });
            let mut r8 = Rng::new(seed, "long", shard);
            g_long(&mut w, &mut r8, if thorough { 1500 } else { 500 });
            let mut r9 = Rng::new(seed, "result", shard);
            g_result(&mut w, &mut r9, if thorough { 6 } else { 1 });
            let mut r10 = Rng::new(seed, "counts", shard);
            g_counts(&mut w, &mut r10, if thorough { 4 } else { 1 });
            let mut r7 = Rng::new(seed, "immobile", shard);
            g_immobile(&mut w, &mut r7, if thorough { 200 } else { 30 });
            let mut r6 = Rng::new(seed, "illegal", shard);
            g_illegal(&mut w, &mut r6, if thorough { 40 } else { 6 });
        }
        "local" => g_local(&mut w, &mut rng, seed, shard, nshards, thorough),
        "tables" => g_tables(&mut w, &mut rng, shard, nshards, thorough),
        "str" => {
            g_str_small(&mut w, seed, shard, nshards, thorough);
            if shard == 0 {
                g_str_diagram(&mut w, &mut rng, 300 * mul);
            } else {
                if shard == 1 {
                    g_str_unicode(&mut w);
                }
                // other shards add random diagram mutations only
                let mut r2 = Rng::new(seed, "str-diagram", shard);
                let alpha_n = 200 * mul;
                gens_random_diagrams(&mut w, &mut r2, alpha_n);
            }
        }
        "corpus" => corpus(&mut w, &a[6]),
        _ => {
            eprintln!("unknown generator {}", gen);
            std::process::exit(2);
        }
    }
    w.end();
    std::fs::File::create(out).unwrap().write_all(w.out.as_bytes()).unwrap();
    // stats as JSON on stdout
    let mut s = String::from("{");
    s.push_str(&format!("\"gen\":\"{}\",\"shard\":{},\"cases\":{},\"states\":{},\"panics\":{},\"dbg\":{}", gen, shard, w.cases, w.states, w.panics, dbg_profile()));
    s.push_str(",\"dist\":{");
    let mut first = true;
    for (k, v) in w.stats.iter() {
        if !first {
            s.push(',');
        }
        first = false;
        s.push_str(&format!("\"{}\":{}", k, v));
    }
    s.push_str("}}");
    println!("{}", s);
}

fn gens_random_diagrams(w: &mut W, rng: &mut Rng, n: u64) {
    // same random-mutation stream as the tail of g_str_diagram, without the fixed lists
    let alpha: Vec<char> = " |\n0123456789gswbxEMHDCRemhdcrXq+-aé€١😀\t".chars().collect();
    for i in 0..n {
        let mut s: Vec<char> = if i % 3 == 0 {
            vec![]
        } else {
            let cells = random_position(rng, 2, 32, false);
            diagram(&cells, 2 + rng.below(100), rng.chance(1, 2)).chars().collect()
        };
        if s.is_empty() {
            let len = rng.below(60);
            for _ in 0..len {
                s.push(alpha[rng.below(alpha.len() as u64) as usize]);
            }
        } else {
            for _ in 0..(1 + rng.below(4)) {
                let pos = rng.below(s.len() as u64 + 1) as usize;
                match rng.below(3) {
                    0 => s.insert(pos.min(s.len()), alpha[rng.below(alpha.len() as u64) as usize]),
                    1 => {
                        if pos < s.len() {
                            s.remove(pos);
                        }
                    }
                    _ => {
                        if pos < s.len() {
                            s[pos] = alpha[rng.below(alpha.len() as u64) as usize];
                        }
                    }
                }
            }
        }
        let st: String = s.into_iter().collect();
        q_case(w, 4, &st);
    }
}

/// corpus / replay files: lines `C ...`, `I ...`, `A ...`, `O k`, `Q ...` (anything else ignored);
/// the harness re-executes them against the current crate and writes a full trace
fn corpus(w: &mut W, path: &str) {
    let text = std::fs::read_to_string(path).unwrap_or_default();
    run_script(w, &text);
}

fn parse_nums(l: &str) -> Vec<u64> {
    l.split_whitespace().skip(1).map(|t| u64::from_str_radix(t, 16).unwrap()).collect()
}

fn run_script(w: &mut W, text: &str) {
    use arimaa_engine_step::GameState;
    let mut gs: Option<GameState> = None;
    for l in text.lines() {
        let tag = l.chars().next().unwrap_or(' ');
        match tag {
            'C' => {
                w.end();
                w.cases += 1;
                w.gen = l.split_whitespace().nth(1).unwrap_or("corpus").to_string();
                w.out.push_str(l);
                w.out.push('\n');
            }
            'I' => {
                let v = parse_nums(l);
                gs = match v[0] {
                    0 => Some(w.init_initial()),
                    1 => w.init_pos(&enc::string_of(&v[1..])),
                    3 => w.init_pos_raw(&enc::string_of(&v[1..])),
                    _ if v.len() > 16 => {
                        // constructed state with an explicit turn-start hash, earlier boards and history
                        let raw = arimaa_engine_step::zobrist::verif::zobrist_from_raw;
                        let h0 = raw(v[15]);
                        let np = v[16] as usize;
                        let mut prevw: Vec<[u64; 7]> = vec![];
                        for i in 0..np {
                            let o = 17 + 7 * i;
                            prevw.push([v[o], v[o + 1], v[o + 2], v[o + 3], v[o + 4], v[o + 5], v[o + 6]]);
                        }
                        let hist: Vec<_> = v[17 + 7 * np..].iter().map(|x| raw(*x)).collect();
                        w.init_built(
                            [v[1], v[2], v[3], v[4], v[5], v[6], v[7]],
                            v[8] != 0,
                            v[9],
                            v[10],
                            (v[11], v[12], v[13]),
                            v[14] != 0,
                            h0,
                            &prevw,
                            &hist,
                        )
                    }
                    _ => w.init_new(
                        [v[1], v[2], v[3], v[4], v[5], v[6], v[7]],
                        v[8] != 0,
                        v[9],
                        v[10],
                        (v[11], v[12], v[13]),
                        v[14] != 0,
                    ),
                };
            }
            'A' => {
                let v = parse_nums(l);
                if let Some(g) = &gs {
                    gs = w.act(g, &enc::dec_action(v[0]));
                }
            }
            'O' => {
                let v = parse_nums(l);
                if let Some(g) = &gs {
                    let g = g.clone();
                    w.watch(&g, v[0]);
                }
            }
            'Q' => {
                let v = parse_nums(l);
                q_case(w, v[0], &enc::string_of(&v[1..]));
            }
            _ => {}
        }
    }
    w.end();
}

fn replay(a: &[String]) {
    // replay <script> <out>
    let mut w = W::new(0);
    w.out.push_str(&format!("M {}\n", dbg_profile() as u64));
    corpus(&mut w, &a[0]);
    std::fs::File::create(&a[1]).unwrap().write_all(w.out.as_bytes()).unwrap();
    println!("{{\"cases\":{},\"states\":{},\"panics\":{}}}", w.cases, w.states, w.panics);
}
