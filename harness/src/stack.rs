//! C20: long capture-free games dropped on a small stack (needs GameState: Send, hence in the `conc` binary).
use crate::gens::*;
use arimaa_engine_step::*;

/// a legal capture-free game of `turns` turns from the standard array, every action drawn from
/// valid_actions(): one step of a non-rabbit piece inside its own three ranks, then a pass
pub fn long_game(turns: u64, seed: u64) -> (GameState, u64) {
    let mut gs = GameState::initial();
    for c in "rrrrrrrrhcdmedchhcdmedchrrrrrrrr".chars() {
        gs = gs.take_action(&std::str::FromStr::from_str(&c.to_string()).unwrap());
    }
    // standard array here: gold rabbits on rank 2; make room: both sides first advance nothing, pieces on
    // the back rank cannot move yet, so let rabbits of each side step forward once where needed
    let mut rng = Rng::new(seed, "long", 0);
    let mut played = 0u64;
    let mut iters = 0u64;
    while played < turns {
        iters += 1;
        if iters > turns * 8 + 64 {
            break;
        }
        let gold = gs.is_p1_turn_to_move();
        let acts = gs.valid_actions();
        let b = gs.piece_board();
        // candidate steps: non-rabbit piece, destination inside own zone (gold ranks 1-3 = rows 5..7,
        // silver ranks 6-8 = rows 0..2), no capture, mover stays non-adjacent to traps' danger (traps
        // are on ranks 3 and 6: avoid stepping onto a trap square)
        let mut cands: Vec<Action> = vec![];
        let mut rabbit_fwd: Vec<Action> = vec![];
        for a in acts.iter() {
            if let Action::Move(s, d) = a {
                let i = s.index() as i32;
                let j = match d {
                    Direction::Up => i - 8,
                    Direction::Down => i + 8,
                    Direction::Left => i - 1,
                    Direction::Right => i + 1,
                };
                let bit = 1u64 << i;
                let own = (b.p1_pieces & bit != 0) == gold;
                if !own {
                    continue;
                }
                let row = j / 8;
                let inside = if gold { row >= 5 } else { row <= 2 };
                let on_trap = TRAPS.contains(&(j as usize));
                if !inside || on_trap {
                    continue;
                }
                if gs.trapped_animal_for_action(a).is_some() {
                    continue;
                }
                if b.rabbits & bit != 0 {
                    rabbit_fwd.push(*a);
                } else {
                    cands.push(*a);
                }
            }
        }
        let pick = if !cands.is_empty() {
            cands[rng.below(cands.len() as u64) as usize]
        } else if !rabbit_fwd.is_empty() {
            rabbit_fwd[rng.below(rabbit_fwd.len() as u64) as usize]
        } else {
            break;
        };
        let n = gs.take_action(&pick);
        // end the turn with a pass if it is offered (it is withheld when the position would repeat
        // a third time); otherwise take another quiet step
        let acts2 = n.valid_actions();
        if acts2.contains(&Action::Pass) {
            gs = n.take_action(&Action::Pass);
            played += 1;
        } else {
            gs = n;
            if gs.is_p1_turn_to_move() != gold {
                played += 1;
            }
        }
    }
    let len = gs.as_play_phase().map(|p| p.hash_history().len() as u64).unwrap_or(0);
    (gs, len)
}

pub fn stack_main(a: &[String]) {
    // stack <turns> <seed> <stack_bytes>
    let turns: u64 = a[0].parse().unwrap();
    let seed: u64 = a[1].parse().unwrap();
    let stack: usize = a[2].parse().unwrap();
    // the game is played on a big-stack thread; the clone/query/drop under test runs on a thread with
    // the default-size (2 MiB) stack
    let builder = std::thread::Builder::new().stack_size(1 << 30);
    let (gs, len) = builder.spawn(move || long_game(turns, seed)).unwrap().join().unwrap();
    // a second, independently replayed copy of the same game: equal histories that share no nodes
    let builder2 = std::thread::Builder::new().stack_size(1 << 30);
    let (gs_b, _) = builder2.spawn(move || long_game(turns, seed)).unwrap().join().unwrap();
    println!("GAME turns={} history_len={} move_number={}", turns, len, gs.move_number());
    let small = std::thread::Builder::new().stack_size(stack);
    let h = small
        .spawn(move || {
            let c = gs.clone();
            let n = c.valid_actions().len();
            let t = c.transposition_hash();
            let e = c == gs;
            let s = format!("{}", c).len();
            // both copies inside the next turn (repetition queries walk the history), queried one after the other
            let step_in = |g: &GameState| -> GameState {
                let acts = g.valid_actions();
                match acts.iter().find(|a| matches!(a, Action::Move(_, _))) {
                    Some(a) => g.take_action(a),
                    None => g.clone(),
                }
            };
            let m1 = step_in(&gs);
            let m2 = step_in(&gs_b);
            let mut q = 0usize;
            for g in [&m1, &m2, &m1, &m2] {
                q += g.valid_actions().len() + g.valid_actions_no_rep().len();
                q += g.can_pass(true) as usize + g.can_pass(false) as usize;
                q += g.is_terminal().is_some() as usize + g.has_move(g.piece_board()).is_some() as usize;
            }
            let e2 = (gs == gs_b) && (m1 == m2);
            drop(m1);
            drop(m2);
            drop(c);
            drop(gs);
            drop(gs_b);
            (n + q * 0, t, e && e2, s)
        })
        .unwrap();
    match h.join() {
        Ok((n, t, e, s)) => println!("OK actions={} hash={:x} eq={} printed={}", n, t, e, s),
        Err(_) => {
            println!("PANIC");
            std::process::exit(3);
        }
    }
}

