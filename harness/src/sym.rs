//! C11: oracle-free metamorphic check on the real crate. Every generated game is replayed
//! mirrored (mu), colour-swapped with rank flip (kappa) and both; offered sets, capture
//! previews, results, pass/has-move answers and resulting positions must correspond.
use crate::enc::*;
use crate::gens::*;
use arimaa_engine_step::*;
use std::collections::BTreeSet;
use std::io::Write;

#[derive(Clone, Copy)]
pub struct Tau {
    pub mirror: bool,
    pub swap: bool,
}

impl Tau {
    pub fn sq(&self, i: usize) -> usize {
        let (mut r, mut c) = (i / 8, i % 8);
        if self.mirror {
            c = 7 - c;
        }
        if self.swap {
            r = 7 - r;
        }
        r * 8 + c
    }
    pub fn dir(&self, d: Direction) -> Direction {
        match d {
            Direction::Left if self.mirror => Direction::Right,
            Direction::Right if self.mirror => Direction::Left,
            Direction::Up if self.swap => Direction::Down,
            Direction::Down if self.swap => Direction::Up,
            d => d,
        }
    }
    pub fn action(&self, a: &Action) -> Action {
        match a {
            Action::Move(s, d) => Action::Move(Square::from_index(self.sq(s.index()) as u8), self.dir(*d)),
            o => *o,
        }
    }
    pub fn owner(&self, gold: bool) -> bool {
        gold != self.swap
    }
    pub fn terminal(&self, t: u64) -> u64 {
        if self.swap && t != 0 {
            3 - t
        } else {
            t
        }
    }
    pub fn cells(&self, c: &[Cell; 64]) -> [Cell; 64] {
        let mut o: [Cell; 64] = [None; 64];
        for i in 0..64 {
            o[self.sq(i)] = c[i].map(|(g, k)| (self.owner(g), k));
        }
        o
    }
}

pub fn cells_of(b: &PieceBoardState) -> [Cell; 64] {
    let mut o: [Cell; 64] = [None; 64];
    for (i, cell) in o.iter_mut().enumerate() {
        let bit = 1u64 << i;
        if b.all_pieces & bit != 0 {
            let k = if b.elephants & bit != 0 {
                Piece::Elephant
            } else if b.camels & bit != 0 {
                Piece::Camel
            } else if b.horses & bit != 0 {
                Piece::Horse
            } else if b.dogs & bit != 0 {
                Piece::Dog
            } else if b.cats & bit != 0 {
                Piece::Cat
            } else {
                Piece::Rabbit
            };
            *cell = Some((b.p1_pieces & bit != 0, k));
        }
    }
    o
}

fn status_code(gs: &GameState, t: &Tau, apply: bool) -> (u64, u64, u64) {
    match gs.as_play_phase().map(|p| p.push_pull_state()) {
        None | Some(PushPullState::None) => (0, 0, 0),
        Some(PushPullState::PossiblePull(s, k)) => (1, if apply { t.sq(s.index()) } else { s.index() } as u64, piece_code(k)),
        Some(PushPullState::MustCompletePush(s, k)) => (2, if apply { t.sq(s.index()) } else { s.index() } as u64, piece_code(k)),
    }
}

fn set_of(acts: &[Action], t: Option<&Tau>) -> BTreeSet<u64> {
    acts.iter().map(|a| enc_action(&match t { Some(t) => t.action(a), None => *a })).collect()
}

pub struct SymStats {
    pub games: u64,
    pub states: u64,
    pub comparisons: u64,
    pub withheld_compared: u64,
    pub captures_compared: u64,
    pub mismatches: Vec<String>,
}

/// compare state `a` (original) with `b` (image game); returns description of first difference
fn compare(a: &GameState, b: &GameState, t: &Tau, st: &mut SymStats) -> Option<String> {
    st.states += 1;
    let ca = t.cells(&cells_of(a.piece_board()));
    let cb = cells_of(b.piece_board());
    if ca != cb {
        return Some("boards differ".into());
    }
    if t.owner(a.is_p1_turn_to_move()) != b.is_p1_turn_to_move() {
        return Some("side to move differs".into());
    }
    if a.is_play_phase() != b.is_play_phase() {
        return Some("phase differs".into());
    }
    if a.is_play_phase() {
        if a.current_step() != b.current_step() {
            return Some("step differs".into());
        }
        if status_code(a, t, true) != status_code(b, t, false) {
            return Some("push/pull status differs".into());
        }
    }
    let (va, vb) = (a.valid_actions(), b.valid_actions());
    let (na, nb) = (a.valid_actions_no_rep(), b.valid_actions_no_rep());
    st.comparisons += 4;
    if set_of(&na, Some(t)) != set_of(&nb, None) {
        return Some(format!("rule-only offered sets differ: {:?} vs {:?}", na, nb));
    }
    st.withheld_compared += (na.len() - va.len()) as u64;
    if set_of(&va, Some(t)) != set_of(&vb, None) {
        return Some(format!("offered sets differ (repetition): {:?} vs {:?}", va, vb));
    }
    if t.terminal(enc_terminal(&a.is_terminal())) != enc_terminal(&b.is_terminal()) {
        return Some("results differ".into());
    }
    if a.can_pass(true) != b.can_pass(true) || a.can_pass(false) != b.can_pass(false) {
        return Some("can_pass differs".into());
    }
    if t.terminal(enc_terminal(&a.has_move(a.piece_board()))) != enc_terminal(&b.has_move(b.piece_board())) {
        return Some("has_move differs".into());
    }
    for act in na.iter() {
        let pa = a.trapped_animal_for_action(act).map(|(s, k, o)| (t.sq(s.index()), piece_code(k), t.owner(o)));
        let pb = b.trapped_animal_for_action(&t.action(act)).map(|(s, k, o)| (s.index(), piece_code(k), o));
        st.comparisons += 1;
        if pa.is_some() {
            st.captures_compared += 1;
        }
        if pa != pb {
            return Some(format!("capture preview differs for {:?}", act));
        }
    }
    None
}

pub fn check_game(init: &str, acts: &[Action], st: &mut SymStats, out: &mut String, known: &dyn Fn(&str, usize) -> bool) {
    let gs0 = match parse_state_guarded(init) {
        Ok(Ok(g)) => g,
        _ => return,
    };
    st.games += 1;
    for (mirror, swap) in [(true, false), (false, true), (true, true)] {
        let t = Tau { mirror, swap };
        let cells = t.cells(&cells_of(gs0.piece_board()));
        let text = diagram(&cells, gs0.move_number() as u64, t.owner(gs0.is_p1_turn_to_move()));
        let mut a = gs0.clone();
        let mut b = match parse_state_guarded(&text) {
            Ok(Ok(g)) => g,
            _ => {
                st.mismatches.push("image position does not parse".into());
                continue;
            }
        };
        let mut i = 0usize;
        loop {
            if let Some(why) = compare(&a, &b, &t, st) {
                if known(init, i) {
                    out.push_str(&format!("# KNOWN {}\n", why));
                } else {
                    st.mismatches.push(format!("tau=(mirror={},swap={}) after {} actions: {}", mirror, swap, i, why));
                    // replayable script of the original game up to here
                    out.push_str(&format!("C sym-mismatch {} {}\n", mirror as u64, swap as u64));
                    let mut v = vec![1u64];
                    v.extend(codepoints(init));
                    line(out, 'I', &v);
                    for x in &acts[..i] {
                        line(out, 'A', &[enc_action(x)]);
                    }
                    out.push_str(&format!("# {}\n", why));
                }
                break;
            }
            if i == acts.len() {
                break;
            }
            let act = acts[i];
            // the move number is only comparable under mu; under kappa it advances at the other side's turn end
            a = a.take_action(&act);
            b = b.take_action(&t.action(&act));
            i += 1;
        }
    }
}

pub fn main(a: &[String]) {
    // sym <seed> <shard> <nshards> <tier> <out>
    let seed: u64 = a[0].parse().unwrap();
    let shard: u64 = a[1].parse().unwrap();
    let _nshards: u64 = a[2].parse().unwrap();
    let thorough = a[3] == "thorough";
    let mul = if thorough { 20 } else { 1 };
    let mut w = W::new(shard);
    w.record = true;
    let mut rng = Rng::new(seed, "sym", shard);
    g_play(&mut w, &mut rng, 10 * mul, 50);
    g_rep(&mut w, &mut rng, 8 * mul, 160);
    w.end();
    let mut st = SymStats { games: 0, states: 0, comparisons: 0, withheld_compared: 0, captures_compared: 0, mismatches: vec![] };
    let mut out = String::new();
    let recorded = std::mem::take(&mut w.recorded);
    for (init, acts) in recorded.iter() {
        check_game(init, acts, &mut st, &mut out, &|_, _| false);
    }
    // extra script (corpus of known games), if given
    if a.len() > 5 {
        let text = std::fs::read_to_string(&a[5]).unwrap_or_default();
        let mut init: Option<String> = None;
        let mut acts: Vec<Action> = vec![];
        let mut flush = |init: &mut Option<String>, acts: &mut Vec<Action>, st: &mut SymStats, out: &mut String| {
            if let Some(i) = init.take() {
                check_game(&i, acts, st, out, &|_, _| false);
            }
            acts.clear();
        };
        for l in text.lines() {
            match l.chars().next() {
                Some('C') => flush(&mut init, &mut acts, &mut st, &mut out),
                Some('I') => {
                    let v: Vec<u64> = l.split_whitespace().skip(1).map(|t| u64::from_str_radix(t, 16).unwrap()).collect();
                    if v[0] == 1 {
                        init = Some(string_of(&v[1..]));
                    }
                }
                Some('A') => {
                    let v = u64::from_str_radix(l.split_whitespace().nth(1).unwrap(), 16).unwrap();
                    acts.push(dec_action(v));
                }
                _ => {}
            }
        }
        flush(&mut init, &mut acts, &mut st, &mut out);
    }
    std::fs::File::create(&a[4]).unwrap().write_all(out.as_bytes()).unwrap();
    let sample = recorded.first().map(|(i, acts)| format!("{} :: {:?}", i.replace('\n', "/"), acts)).unwrap_or_default();
    println!(
        "{{\"games\":{},\"states\":{},\"comparisons\":{},\"withheld_compared\":{},\"captures_compared\":{},\"mismatches\":{},\"first\":{:?},\"sample\":{:?}}}",
        st.games,
        st.states,
        st.comparisons,
        st.withheld_compared,
        st.captures_compared,
        st.mismatches.len(),
        st.mismatches.first().cloned().unwrap_or_default(),
        sample
    );
}
