//! Input generators. Every random choice derives from one splitmix64 state seeded from
//! (VERIF_SEED, generator, shard), so every case replays exactly.
use crate::enc::*;
use arimaa_engine_step::*;
use std::collections::BTreeMap;
use std::panic::{catch_unwind, AssertUnwindSafe};
use std::str::FromStr;

pub struct Rng(pub u64);
impl Rng {
    pub fn new(seed: u64, gen: &str, shard: u64) -> Self {
        let mut h = seed ^ 0x9e3779b97f4a7c15;
        for b in gen.bytes() {
            h = (h ^ b as u64).wrapping_mul(0x100000001b3);
        }
        h ^= shard.wrapping_mul(0xd1342543de82ef95);
        let mut r = Rng(h);
        r.next();
        r
    }
    pub fn next(&mut self) -> u64 {
        self.0 = self.0.wrapping_add(0x9e3779b97f4a7c15);
        let mut z = self.0;
        z = (z ^ (z >> 30)).wrapping_mul(0xbf58476d1ce4e5b9);
        z = (z ^ (z >> 27)).wrapping_mul(0x94d049bb133111eb);
        z ^ (z >> 31)
    }
    pub fn below(&mut self, n: u64) -> u64 {
        if n == 0 {
            0
        } else {
            self.next() % n
        }
    }
    pub fn chance(&mut self, num: u64, den: u64) -> bool {
        self.below(den) < num
    }
}

pub type Cell = Option<(bool, Piece)>;

pub const KINDS: [Piece; 6] = [Piece::Rabbit, Piece::Cat, Piece::Dog, Piece::Horse, Piece::Camel, Piece::Elephant];
pub const TRAPS: [usize; 4] = [18, 21, 42, 45];

pub fn letter(c: (bool, Piece)) -> char {
    let l = match c.1 {
        Piece::Rabbit => 'r',
        Piece::Cat => 'c',
        Piece::Dog => 'd',
        Piece::Horse => 'h',
        Piece::Camel => 'm',
        Piece::Elephant => 'e',
    };
    if c.0 {
        l.to_ascii_uppercase()
    } else {
        l
    }
}

/// our own diagram writer (independent of the crate's printer)
pub fn diagram(cells: &[Cell; 64], move_no: u64, gold: bool) -> String {
    let mut s = format!("{}{}\n +-----------------+\n", move_no, if gold { 'g' } else { 's' });
    for r in 0..8 {
        s.push_str(&format!("{}|", 8 - r));
        for c in 0..8 {
            let i = r * 8 + c;
            s.push(' ');
            s.push(match cells[i] {
                Some(p) => letter(p),
                None => {
                    if TRAPS.contains(&i) {
                        'x'
                    } else {
                        ' '
                    }
                }
            });
        }
        s.push_str(" |\n");
    }
    s.push_str(" +-----------------+\n   a b c d e f g h\n");
    s
}

pub fn nbrs(i: usize) -> Vec<usize> {
    let mut v = vec![];
    if i >= 8 {
        v.push(i - 8)
    }
    if i % 8 != 7 {
        v.push(i + 1)
    }
    if i < 56 {
        v.push(i + 8)
    }
    if i % 8 != 0 {
        v.push(i - 1)
    }
    v
}

pub fn legalize(cells: &mut [Cell; 64]) {
    // remove unsupported pieces from traps so that the position is a legal one
    for &t in TRAPS.iter() {
        if let Some((o, _)) = cells[t] {
            if !nbrs(t).iter().any(|&n| matches!(cells[n], Some((o2, _)) if o2 == o)) {
                cells[t] = None;
            }
        }
    }
}

pub struct W {
    pub out: String,
    pub panics: u64,
    pub cases: u64,
    pub states: u64,
    pub shard: u64,
    pub stats: BTreeMap<String, u64>,
    pub gen: String,
    /// recorded (init text, actions) of the current case for the symmetry replays
    pub cur_init: Option<String>,
    pub cur_actions: Vec<Action>,
    pub recorded: Vec<(String, Vec<Action>)>,
    pub record: bool,
    /// the last thing written for the current case was an observation of the current state
    pub watched: bool,
    /// the state watched before this one (any case): target of the clone_from observation
    pub last_watched: Option<GameState>,
}

impl W {
    pub fn new(shard: u64) -> Self {
        W {
            out: String::new(),
            panics: 0,
            cases: 0,
            states: 0,
            shard,
            stats: BTreeMap::new(),
            gen: String::new(),
            cur_init: None,
            cur_actions: vec![],
            recorded: vec![],
            record: false,
            watched: false,
            last_watched: None,
        }
    }
    pub fn stat(&mut self, k: &str, n: u64) {
        *self.stats.entry(k.to_string()).or_insert(0) += n;
    }
    fn finish_case(&mut self) {
        if self.record {
            if let Some(init) = self.cur_init.take() {
                let acts = std::mem::take(&mut self.cur_actions);
                self.recorded.push((init, acts));
            }
        }
        self.cur_init = None;
        self.cur_actions.clear();
    }
    pub fn begin(&mut self, gen: &str) {
        self.finish_case();
        self.cases += 1;
        self.gen = gen.to_string();
        self.watched = false;
        self.out.push_str(&format!("C {} {} {}\n", gen, self.shard, self.cases));
        self.stat(&format!("cases.{}", gen), 1);
    }
    pub fn init_initial(&mut self) -> GameState {
        self.out.push_str("I 0\n");
        GameState::initial()
    }
    pub fn init_pos(&mut self, text: &str) -> Option<GameState> {
        let mut v = vec![1];
        v.extend(codepoints(text));
        line(&mut self.out, 'I', &v);
        match parse_state_guarded(text) {
            Ok(Ok(gs)) => {
                self.cur_init = Some(text.to_string());
                Some(gs)
            }
            _ => {
                self.out.push_str("X I\n");
                None
            }
        }
    }
    /// like init_pos, for diagrams in which a piece stands unsupported on a trap (`I 3`): the parser accepts them;
    /// compared model-vs-code and watched for panics, the capture monitors are not applied to them
    pub fn init_pos_raw(&mut self, text: &str) -> Option<GameState> {
        let mut v = vec![3];
        v.extend(codepoints(text));
        line(&mut self.out, 'I', &v);
        match parse_state_guarded(text) {
            Ok(Ok(gs)) => Some(gs),
            _ => {
                self.out.push_str("X I\n");
                None
            }
        }
    }
    /// a state built through the public constructors: board words, side, move number, step (number
    /// of previous boards, all equal to the board), status, captured flag; hashes are from-scratch
    #[allow(clippy::too_many_arguments)]
    pub fn init_new(&mut self, w: [u64; 7], gold: bool, move_no: u64, step: u64, status: (u64, u64, u64), trapped: bool) -> Option<GameState> {
        let mut v = vec![2];
        v.extend(w);
        v.extend([gold as u64, move_no, step, status.0, status.1, status.2, trapped as u64]);
        line(&mut self.out, 'I', &v);
        let r = catch_unwind(AssertUnwindSafe(|| {
            let pb = PieceBoard::new(w[0], w[1], w[2], w[3], w[4], w[5], w[6]);
            let hash = Zobrist::from_piece_board(pb.piece_board(), gold, step as usize);
            let h0 = Zobrist::from_piece_board(pb.piece_board(), gold, 0);
            let hist = List::new().append(h0);
            let prev: Vec<PieceBoard> = (0..step).map(|_| pb.clone()).collect();
            let st = match status.0 {
                0 => PushPullState::None,
                1 => PushPullState::PossiblePull(Square::from_index(status.1 as u8), piece_of_code(status.2)),
                _ => PushPullState::MustCompletePush(Square::from_index(status.1 as u8), piece_of_code(status.2)),
            };
            GameState::new(gold, move_no as usize, Phase::PlayPhase(PlayPhase::new(h0, hist, prev, st, trapped)), pb, hash)
        }));
        match r {
            Ok(gs) => Some(gs),
            Err(_) => {
                self.out.push_str("X I\n");
                None
            }
        }
    }
    /// like init_new, with an explicit turn-start hash, earlier boards of the turn (oldest first; empty = `step`
    /// copies of the board) and repetition history (oldest first; values produced by the crate's own public
    /// Zobrist functions)
    #[allow(clippy::too_many_arguments)]
    pub fn init_built(&mut self, w: [u64; 7], gold: bool, move_no: u64, step: u64, status: (u64, u64, u64), trapped: bool, h0: Zobrist, prevw: &[[u64; 7]], hist: &[Zobrist]) -> Option<GameState> {
        let mut v = vec![2];
        v.extend(w);
        v.extend([gold as u64, move_no, step, status.0, status.1, status.2, trapped as u64]);
        v.push(h0.board_state_hash());
        v.push(prevw.len() as u64);
        for b in prevw {
            v.extend(b.iter());
        }
        v.extend(hist.iter().map(|z| z.board_state_hash()));
        line(&mut self.out, 'I', &v);
        let r = catch_unwind(AssertUnwindSafe(|| {
            let pb = PieceBoard::new(w[0], w[1], w[2], w[3], w[4], w[5], w[6]);
            let hash = Zobrist::from_piece_board(pb.piece_board(), gold, step as usize);
            let mut hl = List::new();
            for z in hist {
                hl = hl.append(*z);
            }
            let prev: Vec<PieceBoard> = if prevw.is_empty() {
                (0..step).map(|_| pb.clone()).collect()
            } else {
                prevw.iter().map(|b| PieceBoard::new(b[0], b[1], b[2], b[3], b[4], b[5], b[6])).collect()
            };
            let st = match status.0 {
                0 => PushPullState::None,
                1 => PushPullState::PossiblePull(Square::from_index(status.1 as u8), piece_of_code(status.2)),
                _ => PushPullState::MustCompletePush(Square::from_index(status.1 as u8), piece_of_code(status.2)),
            };
            GameState::new(gold, move_no as usize, Phase::PlayPhase(PlayPhase::new(h0, hl, prev, st, trapped)), pb, hash)
        }));
        match r {
            Ok(gs) => Some(gs),
            Err(_) => {
                self.out.push_str("X I\n");
                None
            }
        }
    }
    pub fn watch(&mut self, gs: &GameState, kind: u64) {
        line(&mut self.out, 'O', &[kind]);
        self.states += 1;
        let g = self.gen.clone();
        self.stat(&format!("states.{}", g), 1);
        observe(&mut self.out, gs, kind, &mut self.panics);
        if kind == 0 {
            // Clone::clone_from onto a state that held something else (the previously watched state): the result must
            // be the source state in every recorded field, earlier boards and history included
            let prev = self.last_watched.take();
            let r = catch_unwind(AssertUnwindSafe(|| {
                let mut d = match &prev {
                    Some(p) => p.clone(),
                    None => gs.clone(),
                };
                d.clone_from(gs);
                enc_state(&d)
            }));
            match r {
                Ok(v) => line(&mut self.out, 'L', &v),
                Err(_) => {
                    self.panics += 1;
                    self.out.push_str("X L\n");
                }
            }
        }
        self.last_watched = Some(gs.clone());
        self.watched = true;
    }
    pub fn act(&mut self, gs: &GameState, a: &Action) -> Option<GameState> {
        if !self.watched {
            // every action is preceded by (at least) the state it is applied to, so that the
            // transition monitors see each step of every case
            line(&mut self.out, 'O', &[2]);
            observe(&mut self.out, gs, 2, &mut self.panics);
        }
        self.watched = false;
        line(&mut self.out, 'A', &[enc_action(a)]);
        self.cur_actions.push(*a);
        match catch_unwind(AssertUnwindSafe(|| gs.take_action(a))) {
            Ok(n) => Some(n),
            Err(_) => {
                self.panics += 1;
                self.out.push_str("X A\n");
                None
            }
        }
    }
    pub fn end(&mut self) {
        self.finish_case();
    }
}

fn is_enemy_move(gs: &GameState, a: &Action) -> bool {
    if let Action::Move(s, _) = a {
        let b = gs.piece_board();
        let bit = s.as_bit_board();
        let gold_piece = b.p1_pieces & bit != 0;
        return gold_piece != gs.is_p1_turn_to_move();
    }
    false
}

fn near_trap(a: &Action) -> bool {
    if let Action::Move(s, _) = a {
        let i = s.index();
        return TRAPS.iter().any(|&t| {
            let (r1, c1, r2, c2) = (i / 8, i % 8, t / 8, t % 8);
            (r1 as i32 - r2 as i32).abs() + (c1 as i32 - c2 as i32).abs() <= 2
        });
    }
    false
}

/// weighted choice favouring pushes/pulls, trap-adjacent steps and passes
pub fn choose(rng: &mut Rng, gs: &GameState, acts: &[Action], pass_w: u64) -> Action {
    let enemy: Vec<&Action> = acts.iter().filter(|a| is_enemy_move(gs, a)).collect();
    if !enemy.is_empty() && rng.chance(35, 100) {
        return *enemy[rng.below(enemy.len() as u64) as usize];
    }
    if acts.contains(&Action::Pass) && rng.chance(pass_w, 100) {
        return Action::Pass;
    }
    let trap: Vec<&Action> = acts.iter().filter(|a| near_trap(a)).collect();
    if !trap.is_empty() && rng.chance(30, 100) {
        return *trap[rng.below(trap.len() as u64) as usize];
    }
    acts[rng.below(acts.len() as u64) as usize]
}

pub fn random_position(rng: &mut Rng, min_pieces: u64, max_pieces: u64, clustered: bool) -> [Cell; 64] {
    let mut cells: [Cell; 64] = [None; 64];
    let total = min_pieces + rng.below(max_pieces - min_pieces + 1);
    let complement: [(Piece, u64); 6] =
        [(Piece::Rabbit, 8), (Piece::Cat, 2), (Piece::Dog, 2), (Piece::Horse, 2), (Piece::Camel, 1), (Piece::Elephant, 1)];
    let mut left = [[8u64, 2, 2, 2, 1, 1], [8u64, 2, 2, 2, 1, 1]];
    let centre = rng.below(64) as i32;
    let mut placed = 0;
    let mut tries = 0;
    while placed < total && tries < 2000 {
        tries += 1;
        let sq = if clustered {
            let r = (centre / 8 + rng.below(5) as i32 - 2).clamp(0, 7);
            let c = (centre % 8 + rng.below(5) as i32 - 2).clamp(0, 7);
            (r * 8 + c) as usize
        } else {
            rng.below(64) as usize
        };
        if cells[sq].is_some() {
            continue;
        }
        let side = rng.below(2) as usize;
        // rabbits are less dominant than in the full army so that strength relations get exercised
        let k = if rng.chance(30, 100) { 0 } else { 1 + rng.below(5) as usize };
        if left[side][k] == 0 {
            continue;
        }
        // rabbits never stand on their own goal rank in random positions (game would be over)
        if k == 0 && ((side == 0 && sq < 8) || (side == 1 && sq >= 56)) && !rng.chance(3, 100) {
            continue;
        }
        left[side][k] -= 1;
        cells[sq] = Some((side == 0, complement[k].0));
        placed += 1;
    }
    legalize(&mut cells);
    cells
}

const MOVE_NUMBERS: [u64; 8] = [2, 2, 2, 3, 17, 1 << 32, 1 << 63, u64::MAX - 1];

// ---------------------------------------------------------------------------------------
// G-setup

pub fn g_setup(w: &mut W, rng: &mut Rng, n_cases: u64) {
    for c in 0..n_cases {
        w.begin("setup");
        let mut gs = w.init_initial();
        w.watch(&gs, 0);
        let mode = c % 4;
        let mut steps = 0;
        let mut total = 0;
        loop {
            total += 1;
            if total > 200 {
                break;
            }
            let acts = gs.valid_actions();
            if acts.is_empty() {
                break;
            }
            let in_setup = !gs.is_play_phase();
            if !in_setup && steps >= 40 {
                break;
            }
            let a = if in_setup {
                match mode {
                    0 => acts[0],
                    1 => acts[acts.len() - 1],
                    _ => acts[rng.below(acts.len() as u64) as usize],
                }
            } else {
                steps += 1;
                choose(rng, &gs, &acts, 15)
            };
            match w.act(&gs, &a) {
                Some(n) => gs = n,
                None => break,
            }
            w.watch(&gs, 0);
            if gs.is_play_phase() && gs.current_step() == 0 && gs.is_terminal().is_some() {
                break;
            }
        }
        w.end();
    }
}

/// all prefixes of placement orders up to length k for Gold, and for Silver after a fixed Gold army
pub fn g_setup_prefixes(w: &mut W, k: usize, shard: u64, nshards: u64) {
    fn rec(w: &mut W, gs: &GameState, path: &mut Vec<Action>, k: usize, silver: bool, idx: &mut u64, shard: u64, nshards: u64) {
        if path.len() == k {
            *idx += 1;
            if *idx % nshards != shard {
                return;
            }
            // one case per leaf: all prefixes along the path are watched
            w.begin(if silver { "setup-prefix-silver" } else { "setup-prefix-gold" });
            let mut g = w.init_initial();
            if silver {
                for a in "rrrrrrrrhcdmedch".chars() {
                    let act = Action::from_str(&a.to_string()).unwrap();
                    g = w.act(&g, &act).unwrap();
                }
            }
            w.watch(&g, 0);
            for a in path.iter() {
                g = w.act(&g, a).unwrap();
                w.watch(&g, 0);
            }
            w.end();
            return;
        }
        for a in gs.valid_actions() {
            let n = gs.take_action(&a);
            path.push(a);
            rec(w, &n, path, k, silver, idx, shard, nshards);
            path.pop();
        }
    }
    let mut idx = 0;
    let gs = GameState::initial();
    rec(w, &gs, &mut vec![], k, false, &mut idx, shard, nshards);
    let mut g = GameState::initial();
    for a in "rrrrrrrrhcdmedch".chars() {
        g = g.take_action(&Action::from_str(&a.to_string()).unwrap());
    }
    rec(w, &g, &mut vec![], k, true, &mut idx, shard, nshards);
}

/// every multiset of pieces a side can have placed (counts of e m h d c r within the complement), for Gold and for
/// Silver (after a random full Gold army): one placement order reaching it (random order of that multiset), the
/// offered kinds watched at the end and at two random points on the way
pub fn g_setup_counts(w: &mut W, rng: &mut Rng, shard: u64, nshards: u64, keep_num: u64, keep_den: u64) {
    let letters = ['r', 'c', 'd', 'h', 'm', 'e'];
    let maxc = [8u64, 2, 2, 2, 1, 1];
    let mut idx = 0u64;
    for silver in [false, true] {
        for r in 0..=maxc[0] {
            for c in 0..=maxc[1] {
                for d in 0..=maxc[2] {
                    for h in 0..=maxc[3] {
                        for m in 0..=maxc[4] {
                            for e in 0..=maxc[5] {
                                let counts = [r, c, d, h, m, e];
                                let total: u64 = counts.iter().sum();
                                if total == 0 || total > 16 {
                                    continue;
                                }
                                idx += 1;
                                let pick = rng.below(keep_den) < keep_num;
                                // the rng is advanced identically on every shard
                                let mut seq: Vec<char> = vec![];
                                for (k, n) in counts.iter().enumerate() {
                                    for _ in 0..*n {
                                        seq.push(letters[k]);
                                    }
                                }
                                for i in (1..seq.len()).rev() {
                                    let j = rng.below(i as u64 + 1) as usize;
                                    seq.swap(i, j);
                                }
                                let mut gold_army: Vec<char> = "rrrrrrrrhcdmedch".chars().collect();
                                for i in (1..gold_army.len()).rev() {
                                    let j = rng.below(i as u64 + 1) as usize;
                                    gold_army.swap(i, j);
                                }
                                let w1 = rng.below(total);
                                let w2 = rng.below(total);
                                if idx % nshards != shard || !pick {
                                    continue;
                                }
                                w.begin(if silver { "setup-counts-silver" } else { "setup-counts-gold" });
                                let mut g = w.init_initial();
                                let mut okc = true;
                                if silver {
                                    for a in gold_army.iter() {
                                        let act = Action::from_str(&a.to_string()).unwrap();
                                        match w.act(&g, &act) {
                                            Some(n) => g = n,
                                            None => {
                                                okc = false;
                                                break;
                                            }
                                        }
                                    }
                                }
                                if okc {
                                    for (i, a) in seq.iter().enumerate() {
                                        let act = Action::from_str(&a.to_string()).unwrap();
                                        if i as u64 == w1 || i as u64 == w2 {
                                            w.watch(&g, 0);
                                        }
                                        match w.act(&g, &act) {
                                            Some(n) => g = n,
                                            None => break,
                                        }
                                    }
                                    w.watch(&g, 0);
                                }
                                w.end();
                            }
                        }
                    }
                }
            }
        }
    }
}

// ---------------------------------------------------------------------------------------
// G-play

pub fn playout(w: &mut W, rng: &mut Rng, mut gs: GameState, max_actions: u64, pass_w: u64, norep: bool) {
    w.watch(&gs, 0);
    for _ in 0..max_actions {
        if gs.is_play_phase() && gs.current_step() == 0 && gs.is_terminal().is_some() {
            break;
        }
        let acts = if norep { gs.valid_actions_no_rep() } else { gs.valid_actions() };
        if acts.is_empty() {
            break;
        }
        let a = choose(rng, &gs, &acts, pass_w);
        match w.act(&gs, &a) {
            Some(n) => gs = n,
            None => break,
        }
        w.watch(&gs, 0);
    }
}

pub fn g_play(w: &mut W, rng: &mut Rng, n_cases: u64, len: u64) {
    for c in 0..n_cases {
        let norep = c % 5 == 4;
        w.begin(if norep { "play-norep" } else { "play" });
        let (lo, hi) = match c % 4 {
            0 => (2, 6),
            1 => (4, 12),
            2 => (8, 20),
            _ => (16, 32),
        };
        let cells = random_position(rng, lo, hi, c % 2 == 0);
        let gold = rng.chance(1, 2);
        let mv = MOVE_NUMBERS[rng.below(MOVE_NUMBERS.len() as u64) as usize];
        let text = diagram(&cells, mv, gold);
        if let Some(gs) = w.init_pos(&text) {
            playout(w, rng, gs, len, 12, norep);
        }
        w.end();
    }
}

// ---------------------------------------------------------------------------------------
// G-rep: tiny material, shuttling pieces, many passes; positions recur

pub fn g_rep(w: &mut W, rng: &mut Rng, n_cases: u64, len: u64) {
    for c in 0..n_cases {
        w.begin("rep");
        let mut cells: [Cell; 64] = [None; 64];
        // gold in the lower half, silver in the upper half, few pieces; sometimes close enough to interact
        let n_each = 1 + rng.below(3);
        let spread = if c % 3 == 0 { 2 } else { 4 };
        for side in 0..2 {
            let mut placed = 0;
            let mut have_rabbit = false;
            while placed < n_each {
                let r = if side == 0 { 7 - rng.below(spread) } else { rng.below(spread) } as usize;
                let col = rng.below(8) as usize;
                let sq = r * 8 + col;
                if cells[sq].is_some() || TRAPS.contains(&sq) {
                    continue;
                }
                let k = if !have_rabbit { 0 } else { 1 + rng.below(5) as usize };
                if k == 0 && ((side == 0 && r == 0) || (side == 1 && r == 7)) {
                    continue;
                }
                have_rabbit = true;
                cells[sq] = Some((side == 0, KINDS[k]));
                placed += 1;
            }
        }
        legalize(&mut cells);
        let gold = rng.chance(1, 2);
        let text = diagram(&cells, 2 + rng.below(5), gold);
        let gs0 = match w.init_pos(&text) {
            Some(g) => g,
            None => {
                w.end();
                continue;
            }
        };
        let mut gs = gs0;
        w.watch(&gs, 0);
        // per side: the step played last turn (to be undone with high probability)
        let mut last_first: [Option<Action>; 2] = [None, None];
        let mut turn_first: Option<Action> = None;
        for _ in 0..len {
            if gs.current_step() == 0 && gs.is_terminal().is_some() {
                break;
            }
            let acts = gs.valid_actions();
            if acts.is_empty() {
                break;
            }
            let side = gs.is_p1_turn_to_move() as usize;
            let step = gs.current_step();
            let a = if step == 0 {
                let undo = last_first[side].and_then(|a| {
                    if let Action::Move(s, d) = a {
                        let i = s.index() as i32;
                        let (j, od) = match d {
                            Direction::Up => (i - 8, Direction::Down),
                            Direction::Down => (i + 8, Direction::Up),
                            Direction::Left => (i - 1, Direction::Right),
                            Direction::Right => (i + 1, Direction::Left),
                        };
                        let cand = Action::Move(Square::from_index(j as u8), od);
                        if acts.contains(&cand) {
                            return Some(cand);
                        }
                    }
                    None
                });
                let quiet: Vec<Action> = acts.iter().cloned().filter(|a| !is_enemy_move(&gs, a)).collect();
                let a = match undo {
                    Some(u) if rng.chance(75, 100) => u,
                    _ if !quiet.is_empty() && rng.chance(80, 100) => quiet[rng.below(quiet.len() as u64) as usize],
                    _ => acts[rng.below(acts.len() as u64) as usize],
                };
                turn_first = Some(a);
                a
            } else if acts.contains(&Action::Pass) && rng.chance(if step == 1 { 70 } else { 50 }, 100) {
                Action::Pass
            } else {
                // sometimes walk back within the turn (position-restoring 2nd..4th steps)
                acts[rng.below(acts.len() as u64) as usize]
            };
            let before_side = gs.is_p1_turn_to_move();
            match w.act(&gs, &a) {
                Some(n) => gs = n,
                None => break,
            }
            if gs.is_p1_turn_to_move() != before_side {
                last_first[side] = turn_first.take();
            }
            w.watch(&gs, 0);
        }
        w.end();
    }
}

// ---------------------------------------------------------------------------------------
// G-long: one long capture-free game per shard (histories of several hundred entries): two pieces wander, every
// state's full record is compared after every action (S line), all queries every 16th state.

pub fn g_long(w: &mut W, rng: &mut Rng, actions: u64) {
    let mut cells: [Cell; 64] = [None; 64];
    cells[4 * 8 + 1 + rng.below(3) as usize] = Some((true, KINDS[1 + rng.below(5) as usize]));
    cells[3 * 8 + 5 + rng.below(2) as usize] = Some((false, KINDS[1 + rng.below(5) as usize]));
    cells[7 * 8] = Some((true, Piece::Rabbit));
    cells[7] = Some((false, Piece::Rabbit));
    let text = diagram(&cells, 2 + rng.below(3), rng.chance(1, 2));
    w.begin("long");
    let mut gs = match w.init_pos(&text) {
        Some(g) => g,
        None => {
            w.end();
            return;
        }
    };
    w.watch(&gs, 0);
    for n in 0..actions {
        if gs.current_step() == 0 && gs.is_terminal().is_some() {
            break;
        }
        let acts = gs.valid_actions();
        if acts.is_empty() {
            break;
        }
        // non-rabbit steps that keep away from the other piece and from traps; pass after one or two steps
        let quiet: Vec<Action> = acts
            .iter()
            .cloned()
            .filter(|a| match a {
                Action::Move(sq, d) => {
                    let i = sq.index() as usize;
                    let dest = match d {
                        Direction::Up => i.wrapping_sub(8),
                        Direction::Down => i + 8,
                        Direction::Left => i.wrapping_sub(1),
                        Direction::Right => i + 1,
                    };
                    gs.piece_board().bits_by_piece_type(Piece::Rabbit) & (1u64 << i) == 0 && !is_enemy_move(&gs, a) && !TRAPS.contains(&dest)
                }
                _ => false,
            })
            .collect();
        let a = if gs.current_step() >= 1 && acts.contains(&Action::Pass) && rng.chance(2, 3) {
            Action::Pass
        } else if !quiet.is_empty() {
            quiet[rng.below(quiet.len() as u64) as usize]
        } else {
            acts[rng.below(acts.len() as u64) as usize]
        };
        match w.act(&gs, &a) {
            Some(nx) => gs = nx,
            None => break,
        }
        if n % 16 == 15 {
            w.watch(&gs, 0);
        }
    }
    w.watch(&gs, 0);
    w.stat("long.history_len", gs.as_play_phase().map(|p| p.hash_history().len() as u64).unwrap_or(0));
    w.end();
}

// ---------------------------------------------------------------------------------------
// G-result: the inputs of the result order at a turn start - a rabbit of each colour on its goal rank or not, each
// colour with or without rabbits, side to move - crossed with the amount of OTHER material: bare, random, and the
// full complement (every non-rabbit piece of both colours and all remaining rabbits on the board).

pub fn g_result(w: &mut W, rng: &mut Rng, variants: u64) {
    for _ in 0..variants {
        for combo in 0..16u64 {
            for gold_to_move in [true, false] {
                for fill in 0..3u64 {
                    let (g_goal, s_goal, g_has, s_has) = (combo & 1 != 0, combo & 2 != 0, combo & 4 != 0, combo & 8 != 0);
                    if (g_goal && !g_has) || (s_goal && !s_has) {
                        continue;
                    }
                    let mut cells: [Cell; 64] = [None; 64];
                    let free = |cells: &[Cell; 64], rows: std::ops::Range<usize>, rng: &mut Rng| -> usize {
                        loop {
                            let sq = (rows.start + rng.below((rows.end - rows.start) as u64) as usize) * 8 + rng.below(8) as usize;
                            if cells[sq].is_none() && !TRAPS.contains(&sq) {
                                return sq;
                            }
                        }
                    };
                    // rabbits: gold's goal rank is row 0 (rank 8), silver's is row 7 (rank 1)
                    let n_rab = |has: bool, fill: u64, rng: &mut Rng| -> u64 {
                        if !has {
                            0
                        } else if fill == 2 {
                            8
                        } else if fill == 1 {
                            1 + rng.below(8)
                        } else {
                            1 + rng.below(3)
                        }
                    };
                    let ng = n_rab(g_has, fill, rng);
                    let ns = n_rab(s_has, fill, rng);
                    for i in 0..ng {
                        let sq = if i == 0 && g_goal { free(&cells, 0..1, rng) } else { free(&cells, 1..8, rng) };
                        cells[sq] = Some((true, Piece::Rabbit));
                    }
                    for i in 0..ns {
                        let sq = if i == 0 && s_goal { free(&cells, 7..8, rng) } else { free(&cells, 0..7, rng) };
                        cells[sq] = Some((false, Piece::Rabbit));
                    }
                    // other material
                    let others: [(Piece, u64); 5] = [(Piece::Cat, 2), (Piece::Dog, 2), (Piece::Horse, 2), (Piece::Camel, 1), (Piece::Elephant, 1)];
                    for gold in [true, false] {
                        for (k, maxn) in others.iter() {
                            let n = match fill {
                                0 => 0,
                                1 => if rng.chance(1, 2) { *maxn } else { rng.below(*maxn + 1) },
                                _ => *maxn,
                            };
                            for _ in 0..n {
                                let sq = free(&cells, 0..8, rng);
                                cells[sq] = Some((gold, *k));
                            }
                        }
                    }
                    if fill == 0 && rng.chance(1, 2) {
                        // at least something that can move
                        let sq = free(&cells, 2..6, rng);
                        cells[sq] = Some((gold_to_move, Piece::Dog));
                    }
                    let text = diagram(&cells, 2 + rng.below(60), gold_to_move);
                    w.begin("result");
                    if let Some(gs) = w.init_pos(&text) {
                        w.watch(&gs, 0);
                        let pieces = cells.iter().filter(|c| c.is_some()).count();
                        w.stat(&format!("result.combo{:02}.fill{}", combo, fill), 1);
                        w.stat(&format!("result.pieces{:02}", pieces), 1);
                        let acts = catch_unwind(AssertUnwindSafe(|| gs.valid_actions())).unwrap_or_default();
                        if !acts.is_empty() {
                            let a = acts[rng.below(acts.len() as u64) as usize];
                            if let Some(n) = w.act(&gs, &a) {
                                w.watch(&n, 0);
                            }
                        }
                    }
                    w.end();
                }
            }
        }
    }
}

// ---------------------------------------------------------------------------------------
// G-counts: the small integers the code can compute with - number of the mover's rabbits (0..8), number of the
// mover's pieces that are NOT frozen (0..2), step of the turn (0..3) - as a full product, for both colours.  Rabbits
// are placed frozen (next to an enemy officer, no friendly neighbour); the unfrozen pieces stand apart.

pub fn g_counts(w: &mut W, rng: &mut Rng, variants: u64) {
    for _ in 0..variants {
        for r in 0..=8u64 {
            for u in 0..=2u64 {
                for step in 0..4u64 {
                    let gold = rng.chance(1, 2);
                    let mut cells: [Cell; 64] = [None; 64];
                    let mut enemy_left: Vec<Piece> = vec![Piece::Cat, Piece::Cat, Piece::Dog, Piece::Dog, Piece::Horse, Piece::Horse, Piece::Camel, Piece::Elephant];
                    let own_nbr = |cells: &[Cell; 64], sq: usize| nbrs(sq).iter().any(|j| matches!(cells[*j], Some((g, _)) if g == gold));
                    let enemy_off_nbr = |cells: &[Cell; 64], sq: usize| nbrs(sq).iter().any(|j| matches!(cells[*j], Some((g, k)) if g != gold && k != Piece::Rabbit));
                    let mut placed = 0;
                    let mut tries = 0;
                    while placed < r && tries < 400 {
                        tries += 1;
                        let row = 1 + rng.below(6) as usize;
                        let sq = row * 8 + rng.below(8) as usize;
                        if cells[sq].is_some() || TRAPS.contains(&sq) || own_nbr(&cells, sq) {
                            continue;
                        }
                        if !enemy_off_nbr(&cells, sq) {
                            // bring a freezer next to it, on a square that touches no other piece of the mover
                            let spots: Vec<usize> = nbrs(sq).into_iter().filter(|j| cells[*j].is_none() && !TRAPS.contains(j)).collect();
                            if spots.is_empty() || enemy_left.is_empty() {
                                continue;
                            }
                            let f = spots[rng.below(spots.len() as u64) as usize];
                            let k = enemy_left.pop().unwrap();
                            cells[f] = Some((!gold, k));
                        }
                        cells[sq] = Some((gold, Piece::Rabbit));
                        placed += 1;
                    }
                    // unfrozen pieces of the mover: officers away from every enemy officer
                    let kinds_u = [Piece::Dog, Piece::Horse];
                    let mut pu = 0;
                    tries = 0;
                    while pu < u && tries < 400 {
                        tries += 1;
                        let sq = rng.below(64) as usize;
                        if cells[sq].is_some() || TRAPS.contains(&sq) || enemy_off_nbr(&cells, sq) || own_nbr(&cells, sq) {
                            continue;
                        }
                        // it must not unfreeze a rabbit (no own neighbour) - checked by own_nbr above, symmetric
                        cells[sq] = Some((gold, kinds_u[pu as usize % 2]));
                        pu += 1;
                    }
                    // the enemy keeps a rabbit
                    for sqr in [8 + 7usize, 6 * 8, 8, 6 * 8 + 7] {
                        if cells[sqr].is_none() && !own_nbr(&cells, sqr) {
                            cells[sqr] = Some((!gold, Piece::Rabbit));
                            break;
                        }
                    }
                    legalize(&mut cells);
                    let status = if step >= 1 && rng.chance(1, 2) { fit_status(&cells, gold, step, rng) } else { (0, 0, 0) };
                    let wds = words_of(&cells);
                    let chain = backward_chain(&cells, gold, step, status, rng);
                    let prevw: Vec<[u64; 7]> = chain.iter().map(words_of).collect();
                    let h0 = if step == 0 { hash_of(&cells, gold) } else { hash_of(&chain[0], gold) };
                    let mv = 2 + rng.below(5);
                    w.begin("counts");
                    let gs = match w.init_built(wds, gold, mv, step, status, false, h0, &prevw, &[h0]) {
                        Some(g) => g,
                        None => {
                            w.end();
                            continue;
                        }
                    };
                    w.watch(&gs, 0);
                    let unfrozen = (0..64).filter(|i| matches!(cells[*i], Some((g, _)) if g == gold) && !is_frozen(&cells, *i)).count();
                    w.stat(&format!("counts.rabbits{}.unfrozen{}.step{}", placed, unfrozen.min(4), step), 1);
                    let acts = catch_unwind(AssertUnwindSafe(|| gs.valid_actions_no_rep())).unwrap_or_default();
                    w.end();
                    for a in acts.iter().take(6) {
                        w.begin("counts");
                        if let Some(g2) = w.init_built(wds, gold, mv, step, status, false, h0, &prevw, &[h0]) {
                            if let Some(nx) = w.act(&g2, a) {
                                w.watch(&nx, 0);
                            }
                        }
                        w.end();
                    }
                }
            }
        }
    }
}

// ---------------------------------------------------------------------------------------
// G-seek: repetition seeker.  Tiny interacting material; at every turn start the whole turn tree (through the
// rule-only lists) is searched for turns that re-create a position already seen at a turn start of the case -
// restoring what the opponent just did by a push or pull, or shuttling - and such a turn is played with high
// probability.  Every state on the way is watched, so the repetition filter is compared with the model at
// exactly the states where a second or third occurrence is one step away (also with short histories).

fn pos_key(gs: &GameState) -> ([u64; 8], bool) {
    (enc_pbs(gs.piece_board()), gs.is_p1_turn_to_move())
}

fn seek_turns(gs: &GameState, side: bool, path: &mut Vec<Action>, out: &mut Vec<(Vec<Action>, ([u64; 8], bool))>, budget: &mut i64) {
    if *budget <= 0 {
        return;
    }
    for a in gs.valid_actions_no_rep() {
        *budget -= 1;
        if *budget <= 0 {
            return;
        }
        let n = match catch_unwind(AssertUnwindSafe(|| gs.take_action(&a))) {
            Ok(n) => n,
            Err(_) => continue,
        };
        path.push(a);
        if n.is_p1_turn_to_move() != side {
            out.push((path.clone(), pos_key(&n)));
        } else {
            seek_turns(&n, side, path, out, budget);
        }
        path.pop();
    }
}

pub fn g_seek(w: &mut W, rng: &mut Rng, n_cases: u64, turns: u64) {
    for c in 0..n_cases {
        w.begin("seek");
        let mut cells: [Cell; 64] = [None; 64];
        // one or two pieces a side, each side has a rabbit far from goal or none at all on a side is avoided;
        // a strong piece of one side next to (or near) a weaker piece of the other, away from traps
        let r0 = 2 + rng.below(4) as usize;
        let c0 = 1 + rng.below(6) as usize;
        let a = r0 * 8 + c0;
        let gap = 1 + rng.below(2) as usize;
        let b = if rng.chance(1, 2) { r0 * 8 + (c0 + gap).min(7) } else { (r0 + gap).min(7) * 8 + c0 };
        if a == b || TRAPS.contains(&a) || TRAPS.contains(&b) {
            w.end();
            continue;
        }
        let strong_gold = rng.chance(1, 2);
        let ks = 1 + rng.below(3) as usize; // KINDS index of the weaker: 1.. (cat..)
        let kstrong = (ks + 1 + rng.below(2) as usize).min(5);
        cells[a] = Some((strong_gold, KINDS[kstrong]));
        cells[b] = Some((!strong_gold, KINDS[ks]));
        // rabbits so that nobody has lost by elimination; placed in far corners, not on goal ranks
        {
            let spots = if c % 2 == 0 { [(6 * 8, true), (8 + 7, false)] } else { [(5 * 8 + 7, true), (2 * 8, false)] };
            for (sq, gold) in spots {
                if cells[sq].is_none() {
                    cells[sq] = Some((gold, KINDS[0]));
                }
            }
        }
        legalize(&mut cells);
        let gold = rng.chance(1, 2);
        let text = diagram(&cells, 2 + rng.below(5), gold);
        let mut gs = match w.init_pos(&text) {
            Some(g) => g,
            None => {
                w.end();
                continue;
            }
        };
        w.watch(&gs, 0);
        let mut seen: Vec<([u64; 8], bool)> = vec![pos_key(&gs)];
        'game: for _ in 0..turns {
            if gs.is_terminal().is_some() {
                break;
            }
            let side = gs.is_p1_turn_to_move();
            let mut found = vec![];
            let mut budget: i64 = 6000;
            seek_turns(&gs, side, &mut vec![], &mut found, &mut budget);
            if found.is_empty() {
                break;
            }
            let rep: Vec<&(Vec<Action>, ([u64; 8], bool))> = found.iter().filter(|(_, k)| seen.contains(k)).collect();
            w.stat("seek.turns", 1);
            let plan: Vec<Action> = if !rep.is_empty() && rng.chance(85, 100) {
                w.stat("seek.turns_recreating_a_seen_position", 1);
                // prefer the longest histories of occurrences: positions seen most often
                let best = rep.iter().map(|(_, k)| seen.iter().filter(|x| *x == k).count()).max().unwrap();
                let top: Vec<&&(Vec<Action>, ([u64; 8], bool))> =
                    rep.iter().filter(|(_, k)| seen.iter().filter(|x| *x == k).count() == best || rng.chance(1, 4)).collect();
                let pick = if top.is_empty() { rep[rng.below(rep.len() as u64) as usize] } else { *top[rng.below(top.len() as u64) as usize] };
                pick.0.clone()
            } else {
                // a short quiet turn
                let short: Vec<&(Vec<Action>, ([u64; 8], bool))> = found.iter().filter(|(p, _)| p.len() <= 2).collect();
                let pool = if short.is_empty() { found.iter().collect::<Vec<_>>() } else { short };
                pool[rng.below(pool.len() as u64) as usize].0.clone()
            };
            for a in plan.iter() {
                w.watch(&gs, 0);
                // the planned action may be withheld by the repetition filter: that is the point of the watch above
                if !gs.valid_actions().contains(a) {
                    w.stat("seek.planned_action_withheld", 1);
                    // fall back to any offered action
                    let acts = gs.valid_actions();
                    if acts.is_empty() {
                        break 'game;
                    }
                    let alt = acts[rng.below(acts.len() as u64) as usize];
                    match w.act(&gs, &alt) {
                        Some(n) => gs = n,
                        None => break 'game,
                    }
                    if gs.is_p1_turn_to_move() != side {
                        seen.push(pos_key(&gs));
                        continue 'game;
                    }
                    // finish the turn with a pass if possible, else random offered actions
                    let mut guard = 0;
                    while gs.is_p1_turn_to_move() == side {
                        guard += 1;
                        if guard > 8 {
                            // a turn has at most four steps: whatever keeps the same side on move longer is reported by
                            // the comparison of the states just written; the generator must not hang on it
                            break 'game;
                        }
                        w.watch(&gs, 0);
                        let acts = gs.valid_actions();
                        if acts.is_empty() {
                            break 'game;
                        }
                        let a2 = if acts.contains(&Action::Pass) { Action::Pass } else { acts[rng.below(acts.len() as u64) as usize] };
                        match w.act(&gs, &a2) {
                            Some(n) => gs = n,
                            None => break 'game,
                        }
                    }
                    seen.push(pos_key(&gs));
                    continue 'game;
                }
                match w.act(&gs, a) {
                    Some(n) => gs = n,
                    None => break 'game,
                }
            }
            seen.push(pos_key(&gs));
            w.watch(&gs, 0);
        }
        w.end();
    }
}

// ---------------------------------------------------------------------------------------
// G-built: mid-turn states assembled through the public constructors with a status that fits the board and a
// SYNTHETIC turn-start hash and repetition history (the position after a pass / after each turn-ending step
// entered zero, one or two times): every combination of "may pass / pass withheld (unchanged position or third
// occurrence)", "all movers frozen", "pull pending", "push pending", "last step" is reached directly instead of
// waiting for a game to produce it.  These states need not be reachable: they are used for the model-vs-code
// comparison only (the monitors treat `I 2` cases as not reachable).

pub fn words_of(cells: &[Cell; 64]) -> [u64; 7] {
    let mut wds = [0u64; 7];
    for (i, c) in cells.iter().enumerate() {
        if let Some((g, k)) = c {
            let slot = match k {
                Piece::Elephant => 1,
                Piece::Camel => 2,
                Piece::Horse => 3,
                Piece::Dog => 4,
                Piece::Cat => 5,
                Piece::Rabbit => 6,
            };
            wds[slot] |= 1 << i;
            if *g {
                wds[0] |= 1 << i;
            }
        }
    }
    wds
}

pub fn g_built(w: &mut W, rng: &mut Rng, n_cases: u64) {
    for c in 0..n_cases {
        let lo = 2 + rng.below(3);
        let hi = lo + 2 + rng.below(6);
        let cells = random_position(rng, lo, hi, c % 4 != 0);
        let gold = rng.chance(1, 2);
        let step = if rng.chance(1, 8) { 0 } else { 1 + rng.below(3) };
        let status = fit_status(&cells, gold, step, rng);
        let wds = words_of(&cells);
        let trapped = step > 0 && rng.chance(1, 4);
        let pb = PieceBoard::new(wds[0], wds[1], wds[2], wds[3], wds[4], wds[5], wds[6]);
        // earlier boards of the turn: each one plausible step before the next; for step >= 2 sometimes the turn
        // started from the very same board (the mover walked back: passing is then not allowed)
        let mut chain = backward_chain(&cells, gold, step, status, rng);
        if step >= 2 && rng.chance(1, 3) {
            chain[0] = cells;
        }
        let prevw: Vec<[u64; 7]> = chain.iter().map(words_of).collect();
        let h0 = if step == 0 { Zobrist::from_piece_board(pb.piece_board(), gold, 0) } else { hash_of(&chain[0], gold) };
        // candidate history entries: the position after a pass, after each turn-ending step
        w.begin("built");
        let probe = match w.init_built(wds, gold, 2 + rng.below(5), step, status, false, h0, &prevw, &[h0]) {
            Some(g) => g,
            None => {
                w.end();
                continue;
            }
        };
        w.watch(&probe, 0);
        let mut cands: Vec<Zobrist> = vec![];
        if step >= 1 {
            let hash_now = Zobrist::from_piece_board(pb.piece_board(), gold, step as usize);
            cands.push(hash_now.pass(step as usize));
        }
        if let Ok(acts) = catch_unwind(AssertUnwindSafe(|| probe.valid_actions_no_rep())) {
            for a in acts {
                if let Ok(n) = catch_unwind(AssertUnwindSafe(|| probe.take_action(&a))) {
                    if n.is_p1_turn_to_move() != gold {
                        if let Some(z) = n.unwrap_play_phase().hash_history().iter().next() {
                            if !cands.contains(z) {
                                cands.push(*z);
                            }
                        }
                    }
                }
            }
        }
        w.end();
        // two variants with synthetic histories: every candidate occurs 0, 1 or 2 times (never more: a third
        // occurrence is never created in a game), the newest entry is the turn-start hash as in every game
        for variant in 0..2 {
            let mut hist: Vec<Zobrist> = vec![];
            for (ci, z) in cands.iter().enumerate() {
                if *z == h0 {
                    continue;
                }
                let times = if variant == 1 && ci == 0 {
                    2
                } else {
                    match rng.below(if variant == 0 { 4 } else { 3 }) {
                        0 => 2,
                        1 => 1,
                        _ => 0,
                    }
                };
                for _ in 0..times {
                    hist.push(*z);
                }
            }
            if hist.len() > 2 && rng.chance(1, 2) {
                let i = rng.below(hist.len() as u64) as usize;
                hist.swap(0, i);
            }
            // the turn-start position itself may have occurred once before
            if rng.chance(1, 3) {
                hist.insert(0, h0);
            }
            hist.push(h0);
            if trapped {
                // a capture earlier in the turn has emptied the history (invariant of every game)
                hist.clear();
            }
            let mv = 2 + rng.below(5);
            w.begin("built");
            let mut kids: Vec<Action> = vec![];
            if let Some(gs) = w.init_built(wds, gold, mv, step, status, trapped, h0, &prevw, &hist) {
                w.watch(&gs, 0);
                w.stat(&format!("built.step{}.status{}.hist{}", step, status.0, hist.len().min(9)), 1);
                if let Ok(acts) = catch_unwind(AssertUnwindSafe(|| gs.valid_actions())) {
                    kids = acts;
                }
            }
            // one action deep (the trace protocol is linear: one case per child)
            for k in 0..2 {
                if kids.is_empty() {
                    break;
                }
                let a = kids[rng.below(kids.len() as u64) as usize];
                if k != 0 {
                    w.end();
                    w.begin("built");
                }
                if let Some(gs) = w.init_built(wds, gold, mv, step, status, trapped, h0, &prevw, &hist) {
                    if let Some(n) = w.act(&gs, &a) {
                        w.watch(&n, 0);
                    }
                }
            }
            w.end();
        }
    }
}

// ---------------------------------------------------------------------------------------
// G-immobile: the branch structure of has_move / is_terminal inside a turn.  The mover has one or two pieces, each
// frozen by a stronger enemy neighbour (so no ordinary step exists); independently: a pull may be completable (a
// weaker enemy piece next to the square the mover just left), the pass may be withheld (the position after a pass
// already occurred twice) or allowed; step 1..3.  Every query is compared on the state and on its successors.

pub fn g_immobile(w: &mut W, rng: &mut Rng, n: u64) {
    for _ in 0..n {
        let mut cells: [Cell; 64] = [None; 64];
        let gold = rng.chance(1, 2);
        let step = 1 + rng.below(3);
        // the piece that moved last: P at p, came from sq (kept empty)
        let p = (1 + rng.below(6) as usize) * 8 + 1 + rng.below(6) as usize;
        let kp = 1 + rng.below(4) as usize; // cat..camel
        let np = nbrs(p);
        let sq = np[rng.below(np.len() as u64) as usize];
        if TRAPS.contains(&p) || TRAPS.contains(&sq) {
            continue;
        }
        cells[p] = Some((gold, KINDS[kp]));
        // a freezer next to P (not on sq)
        let fz: Vec<usize> = np.iter().cloned().filter(|j| *j != sq).collect();
        let f = fz[rng.below(fz.len() as u64) as usize];
        cells[f] = Some((!gold, KINDS[(kp + 1 + rng.below((5 - kp) as u64) as usize).min(5)]));
        // a weaker enemy piece next to sq: the pull can be completed
        let want_pull = rng.chance(2, 3);
        let mut status = (0u64, 0u64, 0u64);
        if want_pull {
            let vs: Vec<usize> = nbrs(sq).into_iter().filter(|j| cells[*j].is_none() && *j != p).collect();
            if !vs.is_empty() {
                let v = vs[rng.below(vs.len() as u64) as usize];
                cells[v] = Some((!gold, KINDS[rng.below(kp as u64) as usize]));
            }
            status = (1, sq as u64, piece_code(KINDS[kp]));
        }
        // sometimes a second frozen mover piece elsewhere
        if rng.chance(1, 2) {
            let q = (1 + rng.below(6) as usize) * 8 + 1 + rng.below(6) as usize;
            let nq = nbrs(q);
            if cells[q].is_none() && q != sq && !TRAPS.contains(&q) && nq.iter().all(|j| cells[*j].is_none() && *j != sq) {
                let kq = rng.below(4) as usize;
                if !(kq == 0 && ((gold && q / 8 == 0) || (!gold && q / 8 == 7))) {
                    cells[q] = Some((gold, KINDS[kq]));
                    cells[nq[rng.below(nq.len() as u64) as usize]] = Some((!gold, KINDS[kq + 1 + rng.below(2) as usize]));
                }
            }
        }
        // the enemy keeps a rabbit somewhere
        for sqr in [8 + 7usize, 6 * 8] {
            if cells[sqr].is_none() && sqr != sq && nbrs(sqr).iter().all(|j| cells[*j].is_none()) {
                cells[sqr] = Some((!gold, Piece::Rabbit));
                break;
            }
        }
        legalize(&mut cells);
        if cells[p].is_none() || cells[sq].is_some() {
            continue;
        }
        let wds = words_of(&cells);
        let chain = backward_chain(&cells, gold, step, status, rng);
        let prevw: Vec<[u64; 7]> = chain.iter().map(words_of).collect();
        let h0 = hash_of(&chain[0], gold);
        let pb = PieceBoard::new(wds[0], wds[1], wds[2], wds[3], wds[4], wds[5], wds[6]);
        let pass_hash = Zobrist::from_piece_board(pb.piece_board(), gold, step as usize).pass(step as usize);
        let mode = rng.below(3); // 0: pass allowed, 1: position after the pass occurred once, 2: twice (withheld)
        let mut hist: Vec<Zobrist> = vec![];
        for _ in 0..mode {
            hist.push(pass_hash);
        }
        if rng.chance(1, 3) {
            hist.insert(0, h0);
        }
        hist.push(h0);
        let mv = 2 + rng.below(5);
        w.begin("immobile");
        let gs = match w.init_built(wds, gold, mv, step, status, false, h0, &prevw, &hist) {
            Some(g) => g,
            None => {
                w.end();
                continue;
            }
        };
        w.watch(&gs, 0);
        let acts = catch_unwind(AssertUnwindSafe(|| gs.valid_actions_no_rep())).unwrap_or_default();
        let offered = catch_unwind(AssertUnwindSafe(|| gs.valid_actions())).unwrap_or_default();
        w.stat(&format!("immobile.step{}.pull{}.passmode{}.offered{}", step, status.0, mode, offered.len().min(3)), 1);
        w.end();
        for a in acts {
            w.begin("immobile");
            if let Some(g2) = w.init_built(wds, gold, mv, step, status, false, h0, &prevw, &hist) {
                if let Some(nx) = w.act(&g2, &a) {
                    w.watch(&nx, 0);
                }
            }
            w.end();
        }
    }
}

// ---------------------------------------------------------------------------------------
// G-trap: trap neighbourhoods x step x status.  A trap with a random occupant, random contents on its four
// neighbours and a sparse second ring; the state is assembled at a random step (0..3) with a fitting status
// (none / pull possible from a square next to a mover's piece / push pending next to an enemy piece), and EVERY
// rule-legal action is applied (one case per action).  Captures, the capture preview, the incremental hash and
// the trap scan are thus compared for the first, a middle and the LAST step of a turn and for steps of own pieces,
// pull completions and push completions alike.


pub fn rank(k: Piece) -> u64 {
    match k {
        Piece::Rabbit => 0,
        Piece::Cat => 1,
        Piece::Dog => 2,
        Piece::Horse => 3,
        Piece::Camel => 4,
        Piece::Elephant => 5,
    }
}

pub fn is_frozen(cells: &[Cell; 64], i: usize) -> bool {
    match cells[i] {
        None => false,
        Some((o, k)) => {
            let ns = nbrs(i);
            let friend = ns.iter().any(|j| matches!(cells[*j], Some((g, _)) if g == o));
            let enemy = ns.iter().any(|j| matches!(cells[*j], Some((g, k2)) if g != o && rank(k2) > rank(k)));
            enemy && !friend
        }
    }
}

/// the board one step earlier: for a pending status the step that produced it is undone; otherwise a mover's
/// piece is put back on a neighbouring empty square it could have come from
pub fn undo_step(cells: &[Cell; 64], gold: bool, status: (u64, u64, u64), rng: &mut Rng) -> [Cell; 64] {
    let mut c = *cells;
    if status.0 == 1 || status.0 == 2 {
        let sq = status.1 as usize;
        let owner = if status.0 == 1 { gold } else { !gold };
        let k = piece_of_code(status.2);
        let cand: Vec<usize> = nbrs(sq).into_iter().filter(|j| cells[*j] == Some((owner, k))).collect();
        if !cand.is_empty() && cells[sq].is_none() {
            let y = cand[rng.below(cand.len() as u64) as usize];
            c[sq] = c[y];
            c[y] = None;
        }
        return c;
    }
    let movers: Vec<usize> = (0..64).filter(|i| matches!(cells[*i], Some((g, _)) if g == gold)).collect();
    for _ in 0..8 {
        if movers.is_empty() {
            break;
        }
        let m = movers[rng.below(movers.len() as u64) as usize];
        let (_, k) = cells[m].unwrap();
        let from: Vec<usize> = nbrs(m)
            .into_iter()
            .filter(|j| cells[*j].is_none())
            .filter(|j| k != Piece::Rabbit || if gold { j / 8 >= m / 8 } else { j / 8 <= m / 8 })
            .collect();
        if from.is_empty() {
            continue;
        }
        let f = from[rng.below(from.len() as u64) as usize];
        c[f] = c[m];
        c[m] = None;
        break;
    }
    c
}

/// earlier boards of the turn, oldest first (`step` of them), ending with the board before the last step
pub fn backward_chain(cells: &[Cell; 64], gold: bool, step: u64, status: (u64, u64, u64), rng: &mut Rng) -> Vec<[Cell; 64]> {
    let mut chain: Vec<[Cell; 64]> = vec![];
    let mut cur = *cells;
    let mut st = status;
    for _ in 0..step {
        cur = undo_step(&cur, gold, st, rng);
        st = (0, 0, 0);
        chain.push(cur);
    }
    chain.reverse();
    chain
}

pub fn hash_of(cells: &[Cell; 64], gold: bool) -> Zobrist {
    let w = words_of(cells);
    Zobrist::from_piece_board(PieceBoard::new(w[0], w[1], w[2], w[3], w[4], w[5], w[6]).piece_board(), gold, 0)
}

pub fn fit_status(cells: &[Cell; 64], gold: bool, step: u64, rng: &mut Rng) -> (u64, u64, u64) {
    let own: Vec<usize> = (0..64).filter(|i| matches!(cells[*i], Some((g, k)) if g == gold && k != Piece::Rabbit)).collect();
    let enemy: Vec<usize> = (0..64).filter(|i| matches!(cells[*i], Some((g, k)) if g != gold && k != Piece::Elephant)).collect();
    let want = if step == 0 { 0 } else { rng.below(3) };
    if want == 1 && !own.is_empty() {
        let t = own[rng.below(own.len() as u64) as usize];
        let free: Vec<usize> = nbrs(t).into_iter().filter(|j| cells[*j].is_none()).collect();
        if !free.is_empty() {
            return (1, free[rng.below(free.len() as u64) as usize] as u64, piece_code(cells[t].unwrap().1));
        }
    } else if want == 2 && !enemy.is_empty() {
        let t = enemy[rng.below(enemy.len() as u64) as usize];
        let kt = cells[t].unwrap().1;
        // the vacated square must have an unfrozen stronger piece of the mover next to it (the pusher)
        let free: Vec<usize> = nbrs(t)
            .into_iter()
            .filter(|j| cells[*j].is_none())
            .filter(|j| nbrs(*j).iter().any(|p| matches!(cells[*p], Some((g, k)) if g == gold && rank(k) > rank(kt)) && !is_frozen(cells, *p)))
            .collect();
        if !free.is_empty() {
            return (2, free[rng.below(free.len() as u64) as usize] as u64, piece_code(kt));
        }
    }
    (0, 0, 0)
}

pub fn g_trap(w: &mut W, rng: &mut Rng, n_states: u64) {
    let kinds = [Piece::Rabbit, Piece::Cat, Piece::Dog, Piece::Horse, Piece::Camel, Piece::Elephant];
    for _ in 0..n_states {
        let mut cells: [Cell; 64] = [None; 64];
        let mut left = [[8u64, 2, 2, 2, 1, 1], [8u64, 2, 2, 2, 1, 1]];
        let trap = TRAPS[rng.below(4) as usize];
        let mut put = |cells: &mut [Cell; 64], sq: usize, rng: &mut Rng, rabbit_w: u64| {
            for _ in 0..6 {
                let side = rng.below(2) as usize;
                let k = if rng.chance(rabbit_w, 100) { 0 } else { 1 + rng.below(5) as usize };
                if left[side][k] == 0 {
                    continue;
                }
                if k == 0 && ((side == 0 && sq < 8) || (side == 1 && sq >= 56)) {
                    continue;
                }
                left[side][k] -= 1;
                cells[sq] = Some((side == 0, kinds[k]));
                return;
            }
        };
        if rng.chance(75, 100) {
            put(&mut cells, trap, rng, 15);
        }
        let ring1 = nbrs(trap);
        for &n in ring1.iter() {
            if rng.chance(55, 100) {
                put(&mut cells, n, rng, 25);
            }
        }
        for &n in ring1.iter() {
            for m in nbrs(n) {
                if m != trap && cells[m].is_none() && rng.chance(30, 100) {
                    put(&mut cells, m, rng, 25);
                }
            }
        }
        // both sides keep a rabbit somewhere far away so that no result interferes
        for (sq, gold) in [(6 * 8, true), (8 + 7, false)] {
            if cells[sq].is_none() {
                cells[sq] = Some((gold, Piece::Rabbit));
            }
        }
        legalize(&mut cells);
        let gold = rng.chance(1, 2);
        let step = rng.below(4);
        let status = fit_status(&cells, gold, step, rng);
        let wds = words_of(&cells);
        let trapped = step > 0 && rng.chance(1, 4);
        // earlier boards of the turn, each one plausible step before the next; the turn-start hash is that of the oldest
        let chain = backward_chain(&cells, gold, step, status, rng);
        let prevw: Vec<[u64; 7]> = chain.iter().map(words_of).collect();
        let other = if step == 0 { hash_of(&cells, gold) } else { hash_of(&chain[0], gold) };
        let mv = 2 + rng.below(5);
        w.begin("trap");
        let hist0: Vec<Zobrist> = if trapped { vec![] } else { vec![other] };
        let gs = match w.init_built(wds, gold, mv, step, status, trapped, other, &prevw, &hist0) {
            Some(g) => g,
            None => {
                w.end();
                continue;
            }
        };
        w.watch(&gs, 0);
        w.stat(&format!("trap.step{}.status{}", step, status.0), 1);
        let acts = catch_unwind(AssertUnwindSafe(|| gs.valid_actions_no_rep())).unwrap_or_default();
        w.end();
        for a in acts {
            w.begin("trap");
            if let Some(g2) = w.init_built(wds, gold, mv, step, status, trapped, other, &prevw, &hist0) {
                if let Some(n) = w.act(&g2, &a) {
                    w.watch(&n, 0);
                    if n.piece_board().bits_by_piece_type(Piece::Rabbit).count_ones() as u64
                        + (1..6).map(|k| n.piece_board().bits_by_piece_type(kinds[k]).count_ones() as u64).sum::<u64>()
                        < cells.iter().filter(|c| c.is_some()).count() as u64
                    {
                        w.stat(&format!("trap.captures.step{}.status{}", step, status.0), 1);
                    }
                }
            }
            w.end();
        }
    }
}

// ---------------------------------------------------------------------------------------
// G-matrix: the scenario matrix  (kind of step) x (what the step does at a trap) x (step number of the turn).
//   kind of step: own step | own step while a pull is possible (e.g. following into the vacated square) |
//                 push start (enemy piece moved first) | pull completion (enemy piece) | push completion (own piece)
//   at the trap : nothing | the moved piece lands on a trap without a friendly neighbour |
//                 the moved piece was the only friendly neighbour of a friendly piece standing on a trap
//   step number : every step of the turn at which that kind of step can occur (0..3)
// Each cell is built directly (minimal pieces + random extras, sometimes a supported piece of either side on
// another trap, any kind incl. elephants on the trap), assembled through the public constructors with the status
// that the kind of step needs, and every rule-legal action of the state is applied (one case each).

fn dir_between(m: usize, d: usize) -> Option<Direction> {
    let (mr, mc, dr, dc) = (m / 8, m % 8, d / 8, d % 8);
    if mc == dc && dr + 1 == mr {
        Some(Direction::Up)
    } else if mc == dc && dr == mr + 1 {
        Some(Direction::Down)
    } else if mr == dr && dc + 1 == mc {
        Some(Direction::Left)
    } else if mr == dr && dc == mc + 1 {
        Some(Direction::Right)
    } else {
        None
    }
}

pub fn g_matrix(w: &mut W, rng: &mut Rng, variants: u64) {
    for variant in 0..variants {
        for mtype in 0..5u64 {
            for ctype in 0..3u64 {
                for step in 0..4u64 {
                    // which steps of the turn allow this kind of step
                    let ok = match mtype {
                        0 => true,
                        1 => step >= 1,
                        2 => step <= 2,
                        _ => step >= 1,
                    };
                    if !ok {
                        continue;
                    }
                    let gold = rng.chance(1, 2);
                    let mut cells: [Cell; 64] = [None; 64];
                    let trap = TRAPS[rng.below(4) as usize];
                    let ring = nbrs(trap);
                    // the moved piece M at m, moving to d
                    let m_is_own = mtype == 0 || mtype == 1 || mtype == 4;
                    let m_owner = if m_is_own { gold } else { !gold };
                    let (m, d) = match ctype {
                        1 => (ring[rng.below(4) as usize], trap),
                        2 => {
                            let m = ring[rng.below(4) as usize];
                            let ds: Vec<usize> = nbrs(m).into_iter().filter(|x| *x != trap).collect();
                            (m, ds[rng.below(ds.len() as u64) as usize])
                        }
                        _ => {
                            let m = rng.below(64) as usize;
                            let ds = nbrs(m);
                            (m, ds[rng.below(ds.len() as u64) as usize])
                        }
                    };
                    // kinds: M weaker than the partner where one is needed
                    let km = match mtype {
                        2 | 3 => rng.below(5) as usize,       // enemy piece moved by push/pull: not an elephant
                        4 => 1 + rng.below(5) as usize,       // pusher: stronger than something
                        1 => rng.below(5) as usize,
                        _ => rng.below(6) as usize,
                    };
                    if km == 0 {
                        // rabbits do not step backwards: choose a destination that is not backward for the owner
                        let back = if m_owner { d / 8 > m / 8 } else { d / 8 < m / 8 };
                        if back && m_is_own {
                            continue;
                        }
                    }
                    cells[m] = Some((m_owner, KINDS[km]));
                    if ctype == 2 {
                        // friendly piece on the trap, any kind (elephants too), M its only friendly neighbour
                        cells[trap] = Some((m_owner, KINDS[rng.below(6) as usize]));
                        for &n in ring.iter() {
                            if n != m && cells[n].is_none() && rng.chance(40, 100) {
                                cells[n] = Some((!m_owner, KINDS[rng.below(3) as usize]));
                            }
                        }
                    }
                    if ctype == 1 {
                        for &n in ring.iter() {
                            if n != m && cells[n].is_none() && rng.chance(40, 100) {
                                cells[n] = Some((!m_owner, KINDS[rng.below(3) as usize]));
                            }
                        }
                    }
                    if cells[d].is_some() {
                        continue;
                    }
                    // the partner piece and the status
                    let mut status = (0u64, 0u64, 0u64);
                    let free_nbr = |cells: &[Cell; 64], x: usize, avoid: usize, rng: &mut Rng| -> Option<usize> {
                        let f: Vec<usize> = nbrs(x).into_iter().filter(|j| *j != avoid && cells[*j].is_none() && !TRAPS.contains(j)).collect();
                        if f.is_empty() {
                            None
                        } else {
                            Some(f[rng.below(f.len() as u64) as usize])
                        }
                    };
                    match mtype {
                        1 | 3 => {
                            // a stronger own piece Y has just left d: it stands on a neighbour of d
                            let ky = (km + 1 + rng.below((5 - km) as u64) as usize).min(5).max(1);
                            if let Some(y) = free_nbr(&cells, d, m, rng) {
                                cells[y] = Some((gold, KINDS[ky]));
                                status = (1, d as u64, piece_code(KINDS[ky]));
                            } else {
                                continue;
                            }
                        }
                        2 => {
                            // an unfrozen stronger own piece next to M
                            let kp = (km + 1 + rng.below((5 - km) as u64) as usize).min(5);
                            if let Some(y) = free_nbr(&cells, m, d, rng) {
                                cells[y] = Some((gold, KINDS[kp]));
                            } else {
                                continue;
                            }
                        }
                        4 => {
                            // an enemy piece weaker than M has just been pushed out of d
                            let ke = rng.below(km as u64) as usize;
                            if let Some(y) = free_nbr(&cells, d, m, rng) {
                                cells[y] = Some((!gold, KINDS[ke]));
                                status = (2, d as u64, piece_code(KINDS[ke]));
                            } else {
                                continue;
                            }
                        }
                        _ => {}
                    }
                    // extras: each OTHER trap may hold a supported piece (more often of the moved piece's side, so that one
                    // side sometimes holds all four traps), a few random pieces
                    for &t2 in TRAPS.iter() {
                        if t2 == trap || cells[t2].is_some() || !rng.chance(1, 2) {
                            continue;
                        }
                        let o = if rng.chance(3, 5) { m_owner } else { !m_owner };
                        let sups: Vec<usize> = nbrs(t2).into_iter().filter(|x| cells[*x].is_none() && *x != d && *x != m).collect();
                        if sups.is_empty() || t2 == d {
                            continue;
                        }
                        let sup = sups[rng.below(sups.len() as u64) as usize];
                        cells[t2] = Some((o, KINDS[rng.below(6) as usize]));
                        cells[sup] = Some((o, KINDS[1 + rng.below(4) as usize]));
                    }
                    if (mtype == 2 || mtype == 4) && rng.chance(1, 2) {
                        // a decoy: a stronger piece of the mover next to the pushed piece / the vacated square, but FROZEN
                        // (an enemy piece stronger still beside it, no friend): it must not push / complete the push
                        let anchor = if mtype == 2 { m } else { d };
                        let weak = if mtype == 2 { km } else { status.2 as usize };
                        let spots: Vec<usize> = nbrs(anchor).into_iter().filter(|x| cells[*x].is_none() && *x != d && *x != m && !TRAPS.contains(x)).collect();
                        if weak < 4 && !spots.is_empty() {
                            let q = spots[rng.below(spots.len() as u64) as usize];
                            let kq = weak + 1 + rng.below((4 - weak) as u64) as usize; // stronger than the pushed piece, below elephant
                            let has_friend = nbrs(q).iter().any(|x| matches!(cells[*x], Some((g, _)) if g == gold));
                            let fz: Vec<usize> = nbrs(q).into_iter().filter(|x| cells[*x].is_none() && *x != d && *x != m && !TRAPS.contains(x)).collect();
                            if !has_friend && !fz.is_empty() {
                                let f = fz[rng.below(fz.len() as u64) as usize];
                                cells[q] = Some((gold, KINDS[kq.min(4)]));
                                cells[f] = Some((!gold, KINDS[(kq + 1).min(5)]));
                            }
                        }
                    }
                    for _ in 0..rng.below(4) {
                        let sq = rng.below(64) as usize;
                        if cells[sq].is_none() && sq != d && !TRAPS.contains(&sq) && !ring.contains(&sq) {
                            cells[sq] = Some((rng.chance(1, 2), KINDS[1 + rng.below(4) as usize]));
                        }
                    }
                    // mostly both sides keep a rabbit far away; sometimes not, so that the piece lost at the trap can be
                    // a side's last rabbit (result at the next turn start)
                    if !rng.chance(1, 4) {
                        for (sq, g) in [(6 * 8, true), (8 + 7, false)] {
                            if cells[sq].is_none() && sq != d {
                                cells[sq] = Some((g, Piece::Rabbit));
                            }
                        }
                    }
                    // keep the intended capture set-up: only remove trap pieces that are ALREADY unsupported
                    legalize(&mut cells);
                    if cells[m].is_none() || cells[d].is_some() {
                        continue;
                    }
                    if mtype == 4 && is_frozen(&cells, m) {
                        continue;
                    }
                    let wds = words_of(&cells);
                    let trapped = step > 0 && rng.chance(1, 5);
                    let chain = backward_chain(&cells, gold, step, status, rng);
                    let prevw: Vec<[u64; 7]> = chain.iter().map(words_of).collect();
                    let other = if step == 0 { hash_of(&cells, gold) } else { hash_of(&chain[0], gold) };
                    let mv = 2 + rng.below(5);
                    let intended = dir_between(m, d).map(|dd| Action::Move(Square::from_index(m as u8), dd));
                    w.begin("matrix");
                    let hist0: Vec<Zobrist> = if trapped { vec![] } else { vec![other] };
        let gs = match w.init_built(wds, gold, mv, step, status, trapped, other, &prevw, &hist0) {
                        Some(g) => g,
                        None => {
                            w.end();
                            continue;
                        }
                    };
                    w.watch(&gs, 0);
                    let acts = catch_unwind(AssertUnwindSafe(|| gs.valid_actions_no_rep())).unwrap_or_default();
                    let hit = intended.map(|a| acts.contains(&a)).unwrap_or(false);
                    w.stat(&format!("matrix.kind{}.trap{}.step{}.{}", mtype, ctype, step, if hit { "intended_offered" } else { "intended_not_offered" }), 1);
                    w.end();
                    let _ = variant;
                    for a in acts {
                        w.begin("matrix");
                        if let Some(g2) = w.init_built(wds, gold, mv, step, status, trapped, other, &prevw, &hist0) {
                            if let Some(n) = w.act(&g2, &a) {
                                w.watch(&n, 0);
                            }
                        }
                        w.end();
                    }
                }
            }
        }
    }
}

// ---------------------------------------------------------------------------------------
// G-illegal: start diagrams with one to three pieces standing unsupported on traps (the parser accepts them);
// every query on the start state and every offered action from it.

pub fn g_illegal(w: &mut W, rng: &mut Rng, n: u64) {
    for _ in 0..n {
        let cl = rng.chance(1, 2);
        let mut cells = random_position(rng, 4, 14, cl);
        let k = 1 + rng.below(3);
        for _ in 0..k {
            let t = TRAPS[rng.below(4) as usize];
            let o = rng.chance(1, 2);
            cells[t] = Some((o, KINDS[rng.below(6) as usize]));
            for nb in nbrs(t) {
                if matches!(cells[nb], Some((g, _)) if g == o) {
                    cells[nb] = None;
                }
            }
        }
        // half of the cases also carry material no setup can produce (a second elephant or camel of a colour, a third
        // horse ...): accepted by the parser, often next to a trap so that captures involve the duplicates
        if rng.chance(1, 2) {
            for _ in 0..(1 + rng.below(3)) {
                let t = TRAPS[rng.below(4) as usize];
                let o = rng.chance(1, 2);
                let k = KINDS[2 + rng.below(4) as usize];
                let spots: Vec<usize> = std::iter::once(t).chain(nbrs(t).into_iter()).filter(|x| cells[*x].is_none()).collect();
                if spots.len() >= 2 {
                    let a = spots[rng.below(spots.len() as u64) as usize];
                    cells[a] = Some((o, k));
                    let rest: Vec<usize> = spots.iter().cloned().filter(|x| *x != a).collect();
                    let b = rest[rng.below(rest.len() as u64) as usize];
                    cells[b] = Some((o, k));
                }
            }
        }
        let text = diagram(&cells, 2 + rng.below(5), rng.chance(1, 2));
        w.begin("illegal");
        let gs = match w.init_pos_raw(&text) {
            Some(g) => g,
            None => {
                w.end();
                continue;
            }
        };
        w.watch(&gs, 0);
        let acts = catch_unwind(AssertUnwindSafe(|| gs.valid_actions_no_rep())).unwrap_or_default();
        w.end();
        for a in acts.iter().take(12) {
            w.begin("illegal");
            if let Some(g2) = w.init_pos_raw(&text) {
                if let Some(nx) = w.act(&g2, a) {
                    w.watch(&nx, 0);
                    let more = catch_unwind(AssertUnwindSafe(|| nx.valid_actions_no_rep())).unwrap_or_default();
                    if !more.is_empty() {
                        let b = more[rng.below(more.len() as u64) as usize];
                        if let Some(n2) = w.act(&nx, &b) {
                            w.watch(&n2, 0);
                        }
                    }
                }
            }
            w.end();
        }
    }
}

// ---------------------------------------------------------------------------------------
// G-local: exhaustive small patterns

fn expand1(w: &mut W, gen: &str, text: &str) {
    // root
    w.begin(gen);
    let gs = match w.init_pos(text) {
        Some(g) => g,
        None => {
            w.end();
            return;
        }
    };
    w.watch(&gs, 0);
    w.end();
    let acts = gs.valid_actions_no_rep();
    for a in acts {
        w.begin(gen);
        let g = w.init_pos(text).unwrap();
        if let Some(n) = w.act(&g, &a) {
            w.watch(&n, 0);
        }
        w.end();
    }
}

fn expand_tree(w: &mut W, gen: &str, text: &str, depth: usize, budget: &mut i64) {
    fn rec(w: &mut W, gen: &str, text: &str, gs: &GameState, path: &mut Vec<Action>, depth: usize, budget: &mut i64) {
        if *budget <= 0 {
            return;
        }
        *budget -= 1;
        w.begin(gen);
        let mut g = w.init_pos(text).unwrap();
        for a in path.iter() {
            g = w.act(&g, a).unwrap();
        }
        w.watch(&g, 0);
        w.end();
        if depth == 0 {
            return;
        }
        let side = gs.is_p1_turn_to_move();
        for a in gs.valid_actions_no_rep() {
            let n = gs.take_action(&a);
            if n.is_p1_turn_to_move() != side {
                // the turn ended: watch the resulting state but do not go deeper
                if *budget <= 0 {
                    return;
                }
                *budget -= 1;
                w.begin(gen);
                let mut g = w.init_pos(text).unwrap();
                for b in path.iter() {
                    g = w.act(&g, b).unwrap();
                }
                let g2 = w.act(&g, &a).unwrap();
                w.watch(&g2, 0);
                w.end();
                continue;
            }
            path.push(a);
            rec(w, gen, text, &n, path, depth - 1, budget);
            path.pop();
        }
    }
    if let Ok(Ok(gs)) = parse_state_guarded(text) {
        rec(w, gen, text, &gs, &mut vec![], depth, budget);
    }
}

fn sel(seed: u64, idx: u64, keep_num: u64, keep_den: u64) -> bool {
    let mut r = Rng(seed ^ idx.wrapping_mul(0x9e3779b97f4a7c15));
    r.next();
    r.below(keep_den) < keep_num
}

pub fn g_local(w: &mut W, rng: &mut Rng, seed: u64, shard: u64, nshards: u64, thorough: bool) {
    let mut idx: u64 = 0;
    let mut mine = |idx: &mut u64| {
        *idx += 1;
        *idx % nshards == shard
    };
    // L1: a lone piece on every square, both sides to move
    for sq in 0..64usize {
        for (ki, k) in KINDS.iter().enumerate() {
            for gold_piece in [true, false] {
                for gold_move in [true, false] {
                    if !mine(&mut idx) {
                        continue;
                    }
                    if !thorough && !sel(seed, idx, 1, 4) && !(ki == 0 || ki == 5) {
                        continue;
                    }
                    let mut cells: [Cell; 64] = [None; 64];
                    cells[sq] = Some((gold_piece, *k));
                    legalize(&mut cells);
                    expand1(w, "local-lone", &diagram(&cells, 2, gold_move));
                }
            }
        }
    }
    // L2: every ordered adjacent pair of squares x every pair of (owner, kind), both sides to move:
    // freezing, support, push and pull generation at every square and direction
    for sq in 0..64usize {
        for n in nbrs(sq) {
            for a in 0..12usize {
                for b in 0..12usize {
                    for gold_move in [true, false] {
                        if !mine(&mut idx) {
                            continue;
                        }
                        if !thorough && !sel(seed, idx, 1, 24) {
                            continue;
                        }
                        let mut cells: [Cell; 64] = [None; 64];
                        cells[sq] = Some((a < 6, KINDS[a % 6]));
                        cells[n] = Some((b < 6, KINDS[b % 6]));
                        // a third piece sometimes: a supporter / freezer next to the first piece
                        if sel(seed ^ 7, idx, 1, 2) {
                            let others: Vec<usize> = nbrs(sq).into_iter().filter(|&x| x != n).collect();
                            if !others.is_empty() {
                                let o = others[(idx as usize / 3) % others.len()];
                                let c = (idx as usize / 7) % 12;
                                cells[o] = Some((c < 6, KINDS[c % 6]));
                            }
                        }
                        legalize(&mut cells);
                        let text = diagram(&cells, 2, gold_move);
                        if sel(seed ^ 11, idx, 1, 6) {
                            let mut budget = 60;
                            expand_tree(w, "local-pair-tree", &text, 3, &mut budget);
                        } else {
                            expand1(w, "local-pair", &text);
                        }
                    }
                }
            }
        }
    }
    // L3: trap sweep: occupant (or none) on each trap, every neighbour empty / gold / silver
    for &t in TRAPS.iter() {
        let ns = nbrs(t);
        for occ in 0..13usize {
            for cfg in 0..81usize {
                for gold_move in [true, false] {
                    if !mine(&mut idx) {
                        continue;
                    }
                    if !thorough && !sel(seed, idx, 1, 6) {
                        continue;
                    }
                    let mut cells: [Cell; 64] = [None; 64];
                    if occ < 12 {
                        cells[t] = Some((occ < 6, KINDS[occ % 6]));
                    }
                    let mut c = cfg;
                    for (j, &n) in ns.iter().enumerate() {
                        let v = c % 3;
                        c /= 3;
                        if v > 0 {
                            let k = KINDS[(idx as usize / (j + 1) + j * 5) % 6];
                            cells[n] = Some((v == 1, k));
                        }
                    }
                    // sometimes a piece two squares away that can step next to / push into the trap area
                    if sel(seed ^ 13, idx, 1, 2) {
                        let far = [t - 16, t + 16, t - 2, t + 2, t - 9, t - 7, t + 7, t + 9];
                        let f = far[(idx as usize) % far.len()];
                        if cells[f].is_none() {
                            let k = (idx as usize / 5) % 12;
                            cells[f] = Some((k < 6, KINDS[k % 6]));
                        }
                    }
                    legalize(&mut cells);
                    let text = diagram(&cells, 2, gold_move);
                    if sel(seed ^ 17, idx, 1, 8) {
                        let mut budget = 80;
                        expand_tree(w, "local-trap-tree", &text, 3, &mut budget);
                    } else {
                        expand1(w, "local-trap", &text);
                    }
                }
            }
        }
    }
    // L4: goal sweep: a rabbit of either colour on each of the 16 goal-rank squares x side to move x
    // presence/absence of the other conditions
    for goal_sq in (0..8usize).chain(56..64) {
        for rabbit_gold in [true, false] {
            for gold_move in [true, false] {
                for other in 0..16usize {
                    if !mine(&mut idx) {
                        continue;
                    }
                    if !thorough && !sel(seed, idx, 1, 2) {
                        continue;
                    }
                    let mut cells: [Cell; 64] = [None; 64];
                    cells[goal_sq] = Some((rabbit_gold, Piece::Rabbit));
                    let free = |cells: &[Cell; 64], rng: &mut Rng, lo: usize, hi: usize| -> usize {
                        loop {
                            let s = lo + rng.below((hi - lo) as u64) as usize;
                            if cells[s].is_none() && !TRAPS.contains(&s) {
                                return s;
                            }
                        }
                    };
                    if other & 1 != 0 {
                        // the other colour's rabbit on its own goal rank
                        let s = if rabbit_gold { free(&cells, rng, 56, 64) } else { free(&cells, rng, 0, 8) };
                        cells[s] = Some((!rabbit_gold, Piece::Rabbit));
                    }
                    if other & 2 != 0 {
                        let s = free(&cells, rng, 24, 40);
                        cells[s] = Some((true, Piece::Rabbit));
                    }
                    if other & 4 != 0 {
                        let s = free(&cells, rng, 24, 40);
                        cells[s] = Some((false, Piece::Rabbit));
                    }
                    if other & 8 != 0 {
                        let s = free(&cells, rng, 16, 48);
                        cells[s] = Some((rng.chance(1, 2), KINDS[1 + rng.below(5) as usize]));
                    }
                    expand1(w, "local-goal", &diagram(&cells, 2 + (idx % 3), gold_move));
                }
            }
        }
    }
    // L5: random small clustered positions, full step tree to depth 4 (every node watched)
    let n_tree = if thorough { 12 } else { 2 };
    for _ in 0..n_tree {
        let cells = random_position(rng, 3, 7, true);
        let text = diagram(&cells, 2, rng.chance(1, 2));
        let mut budget = if thorough { 3000 } else { 400 };
        expand_tree(w, "local-tree4", &text, 4, &mut budget);
    }
    // L6: immobilised and nearly immobilised movers (corner and edge blockades)
    for variant in 0..32u64 {
        if !mine(&mut idx) {
            continue;
        }
        let mut cells: [Cell; 64] = [None; 64];
        let gold_move = variant % 2 == 0;
        let me = gold_move;
        // mover's rabbit in a corner, blocked/frozen by stronger enemy pieces
        let corner = [0usize, 7, 56, 63][(variant as usize / 2) % 4];
        cells[corner] = Some((me, if variant & 8 != 0 { Piece::Cat } else { Piece::Rabbit }));
        for n in nbrs(corner) {
            cells[n] = Some((!me, if variant & 16 != 0 { Piece::Dog } else { Piece::Elephant }));
        }
        // the enemy needs a rabbit somewhere so that immobilisation (not elimination) decides
        let far = if corner < 32 { 60 - (variant as usize % 3) } else { 3 + (variant as usize % 3) };
        cells[far] = Some((!me, Piece::Rabbit));
        if variant & 8 == 0 {
            // ok: mover has a rabbit (the cornered one)
        } else {
            let far2 = if corner < 32 { 50 } else { 10 };
            cells[far2] = Some((me, Piece::Rabbit));
            for n in nbrs(far2) {
                if cells[n].is_none() && !TRAPS.contains(&n) {
                    cells[n] = Some((!me, Piece::Camel));
                }
            }
        }
        legalize(&mut cells);
        expand1(w, "local-immobile", &diagram(&cells, 2, gold_move));
    }
}

// ---------------------------------------------------------------------------------------
// tables: constructed single-piece states and all statuses (ties C17/C08 table indexing)

pub fn g_tables(w: &mut W, rng: &mut Rng, shard: u64, nshards: u64, thorough: bool) {
    let mut idx = 0u64;
    for sq in 0..64u64 {
        for k in 0..6usize {
            for gold_piece in [true, false] {
                for gold_move in [true, false] {
                    for step in 0..4u64 {
                        idx += 1;
                        if idx % nshards != shard {
                            continue;
                        }
                        let mut wds = [0u64; 7];
                        // order of PieceBoard::new: p1, e, m, h, d, c, r
                        let slot = match KINDS[k] {
                            Piece::Elephant => 1,
                            Piece::Camel => 2,
                            Piece::Horse => 3,
                            Piece::Dog => 4,
                            Piece::Cat => 5,
                            Piece::Rabbit => 6,
                        };
                        wds[slot] = 1 << sq;
                        if gold_piece {
                            wds[0] = 1 << sq;
                        }
                        w.begin("table-piece");
                        if let Some(gs) = w.init_new(wds, gold_move, 2, step, (0, 0, 0), false) {
                            w.watch(&gs, 1);
                        }
                        w.end();
                    }
                }
            }
        }
    }
    // all 641 statuses on an empty board (status 0 covered above) and on random dense boards
    for kind in 1..3u64 {
        for sq in 0..64u64 {
            for pk in 0..6u64 {
                // pushed elephant / pulling rabbit panic in transposition_hash: not admissible statuses
                if (kind == 2 && pk == 5) || (kind == 1 && pk == 0) {
                    continue;
                }
                idx += 1;
                if idx % nshards != shard {
                    continue;
                }
                w.begin("table-status");
                if let Some(gs) = w.init_new([0; 7], sq % 2 == 0, 2, 1 + sq % 3, (kind, sq, pk), false) {
                    w.watch(&gs, 1);
                }
                w.end();
            }
        }
    }
    // G-ill (calibration of model/Safety.v, never counted for a property): statuses the engine cannot
    // report - a pushed elephant, a pulling rabbit, an off-board square - must panic in
    // transposition_hash exactly where the model's guard `queries_safe` is false
    for (kind, sq, pk) in [(2u64, 0u64, 5u64), (2, 27, 5), (2, 63, 5), (1, 0, 0), (1, 36, 0), (1, 63, 0), (1, 64, 3), (2, 64, 2), (1, 200, 5), (2, 255, 0)] {
        idx += 1;
        if idx % nshards != shard {
            continue;
        }
        w.begin("table-ill-status");
        if let Some(gs) = w.init_new([0; 7], true, 2, 1, (kind, sq, pk), false) {
            w.watch(&gs, 1);
        }
        w.end();
    }
    let n_dense = if thorough { 2000 } else { 200 };
    for _ in 0..n_dense {
        idx += 1;
        if idx % nshards != shard {
            // keep the rng stream aligned across shards
            let _ = random_position(rng, 8, 32, false);
            continue;
        }
        let cells = random_position(rng, 8, 32, false);
        let mut wds = [0u64; 7];
        for (i, c) in cells.iter().enumerate() {
            if let Some((g, k)) = c {
                let slot = match k {
                    Piece::Elephant => 1,
                    Piece::Camel => 2,
                    Piece::Horse => 3,
                    Piece::Dog => 4,
                    Piece::Cat => 5,
                    Piece::Rabbit => 6,
                };
                wds[slot] |= 1 << i;
                if *g {
                    wds[0] |= 1 << i;
                }
            }
        }
        let kind = rng.below(3);
        let pk = if kind == 2 { rng.below(5) } else { 1 + rng.below(5) };
        w.begin("table-dense");
        if let Some(gs) = w.init_new(wds, rng.chance(1, 2), 2, rng.below(4), (kind, rng.below(64), pk), rng.chance(1, 2)) {
            w.watch(&gs, 1);
        }
        w.end();
    }
}

// ---------------------------------------------------------------------------------------
// G-str

pub const ALPHABET: [char; 24] = [
    '`', 'a', 'h', 'i', 'A', '0', '1', '8', '9', 'n', 'e', 's', 'w', 'p', 'r', 'R', 'x', ' ', 'g', 'é', 'š', '€', '😀', '١',
];

pub fn q_case(w: &mut W, which: u64, s: &str) {
    let mut v = vec![which];
    v.extend(codepoints(s));
    line(&mut w.out, 'Q', &v);
    let r = run_parser(which, s);
    if r.first() == Some(&1) {
        w.panics += 1;
    }
    w.stat(&format!("str.outcome.{}.{}", which, r[0]), 1);
    line(&mut w.out, 'P', &r);
    w.states += 1;
}

/// every Unicode scalar value >= 0x80 in every position of the shortest accepted forms ("e", "a2", "a2n", "n"):
/// whatever is not rejected becomes a case (the exactness clause of C16: only printed forms are accepted)
pub fn g_str_unicode(w: &mut W) {
    let mut scanned = 0u64;
    for cp in 0x80u32..0x110000 {
        let c = match char::from_u32(cp) {
            Some(c) => c,
            None => continue,
        };
        scanned += 1;
        let one = c.to_string();
        let cands: [(u64, String); 9] = [
            (0, one.clone()),
            (1, one.clone()),
            (2, one.clone()),
            (3, one.clone()),
            (1, format!("{}2", c)),
            (1, format!("a{}", c)),
            (0, format!("{}2n", c)),
            (0, format!("a{}n", c)),
            (0, format!("a2{}", c)),
        ];
        for (which, s) in cands.iter() {
            let r = run_parser(*which, s);
            if r[0] != 0 {
                q_case(w, *which, s);
                w.stat("str.unicode.not_rejected", 1);
            }
        }
    }
    w.stat("str.unicode.scalars_scanned", scanned);
}

pub fn g_str_small(w: &mut W, seed: u64, shard: u64, nshards: u64, thorough: bool) {
    // all strings up to length 3 (quick) / 4 (thorough) over ALPHABET through the four small parsers;
    // quick adds a seeded 1/16 sample of length 4
    let n = ALPHABET.len() as u64;
    let mut idx = 0u64;
    let maxlen = 4;
    for len in 0..=maxlen {
        let total = n.pow(len);
        for code in 0..total {
            idx += 1;
            if idx % nshards != shard {
                continue;
            }
            if len == 4 && !thorough && !sel(seed, idx, 1, 16) {
                continue;
            }
            let mut s = String::new();
            let mut c = code;
            for _ in 0..len {
                s.push(ALPHABET[(c % n) as usize]);
                c /= n;
            }
            for which in 0..4 {
                // piece and direction parsers only look at strings of length <= 2 in full
                if which >= 2 && len > 2 {
                    continue;
                }
                q_case(w, which, &s);
            }
        }
    }
    if shard == 0 {
        // printed forms of all values and the square conversion maps
        for v in 0..(16 + 64 * 4) {
            if v < 7 || v >= 16 {
                line(&mut w.out, 'Y', &[0, v]);
                line(&mut w.out, 'Z', &run_printer(0, v));
            }
        }
        for v in 0..64 {
            line(&mut w.out, 'Y', &[1, v]);
            line(&mut w.out, 'Z', &run_printer(1, v));
            line(&mut w.out, 'G', &[v]);
            line(&mut w.out, 'Z', &run_square_maps(v));
        }
        for v in 0..6 {
            line(&mut w.out, 'Y', &[2, v]);
            line(&mut w.out, 'Z', &run_printer(2, v));
        }
        for v in 0..4 {
            line(&mut w.out, 'Y', &[3, v]);
            line(&mut w.out, 'Z', &run_printer(3, v));
        }
        // Square::from_bit_board on arbitrary words: empty, single bits, several bits
        let mut r = Rng::new(seed, "from_bit_board", 0);
        let mut xs: Vec<u64> = vec![0, 3, 6, u64::MAX, 1 << 63, (1 << 63) | 1, 0x0000240000240000];
        for _ in 0..200 {
            let a = r.next();
            xs.push(a);
            xs.push(a & r.next() & r.next());
            xs.push((1u64 << r.below(64)) | (1u64 << r.below(64)));
        }
        for x in xs {
            line(&mut w.out, 'G', &[64, x]);
            match catch_unwind(AssertUnwindSafe(|| Square::from_bit_board(x).index() as u64)) {
                Ok(i) => line(&mut w.out, 'Z', &[2, i]),
                Err(_) => line(&mut w.out, 'Z', &[1]),
            }
        }
        w.stat("printed.values", 263 + 64 + 6 + 4);
    }
}

fn base_rows() -> Vec<String> {
    vec![
        " h c d m e d c h ".into(),
        " r r r r r r r r ".into(),
        "     x     x     ".into(),
        "                 ".into(),
        "                 ".into(),
        "     x     x     ".into(),
        " R R R R R R R R ".into(),
        " H C D M E D C H ".into(),
    ]
}

fn assemble(header: &str, rows: &[String]) -> String {
    let mut s = String::new();
    s.push_str(header);
    s.push_str("\n +-----------------+\n");
    for (i, r) in rows.iter().enumerate() {
        s.push_str(&format!("{}|{}|\n", 8i64 - i as i64, r));
    }
    s.push_str(" +-----------------+\n   a b c d e f g h\n");
    s
}

pub fn g_str_diagram(w: &mut W, rng: &mut Rng, n_random: u64) {
    let rows = base_rows();
    let mut headers: Vec<String> = vec![];
    for side in ["g", "s", "w", "b", "x", "G", ""] {
        for num in [
            "", "0", "1", "2", "007", "18446744073709551614", "18446744073709551615", "18446744073709551616",
            "18446744073709551617", "99999999999999999999999", "0000000000000000000000000000000000001",
            "184467440737095516150", "+5", "-5", "5 ", "١", "1١", "١1", "٣٤", "５", "𝟓", "5.0", "1_0",
        ] {
            headers.push(format!("{}{}", num, side));
        }
    }
    for ws in ["", " ", "\t", "\n", "\r\n", "\u{b}", "\u{c}", "\u{85}", "\u{a0}", "\u{1680}", "\u{2000}", "\u{200a}", "\u{2028}", "\u{2029}", "\u{202f}", "\u{205f}", "\u{3000}", "\u{200b}", "\u{feff}", "\u{1c}", "\u{1f}"] {
        headers.push(format!("{}12s", ws));
        headers.push(format!("{}{}3g", ws, ws));
        headers.push(format!("x{}3g", ws));
    }
    // move numbers written with digits of every UTF-8 width (ASCII 1 byte, Arabic-Indic 2, Devanagari / fullwidth 3,
    // mathematical 4), runs of 1..40 digits, mixed and unmixed, with and without a side letter
    {
        let classes: [u32; 5] = [0x30, 0x660, 0x966, 0xFF10, 0x1D7CE];
        for len in 1..=40usize {
            for variant in 0..6u64 {
                let mut num = String::new();
                for i in 0..len {
                    let cl = match variant {
                        0 => 1,
                        1 => 2,
                        2 => 3,
                        3 => 4,
                        4 => if i == 0 { 0 } else { 1 + (i % 4) },
                        _ => rng.below(5) as usize,
                    };
                    num.push(char::from_u32(classes[cl] + rng.below(10) as u32).unwrap());
                }
                let side = ["g", "s", "w", "b", ""][rng.below(5) as usize];
                headers.push(format!("{}{}", num, side));
            }
        }
    }
    for h in &headers {
        q_case(w, 4, &assemble(h, &rows));
    }
    // structural mutations
    let mut muts: Vec<String> = vec![];
    for extra in [1usize, 2, 8, 24, 25, 31, 32, 33] {
        let mut r = rows.clone();
        for j in 0..extra {
            r.push(if j + 1 == extra { " E r             ".into() } else { "                 ".into() });
        }
        muts.push(assemble("2g", &r));
    }
    for extra_cols in [1usize, 2, 8, 9, 56, 57, 248, 249] {
        let mut r = rows.clone();
        let mut first = String::from(" h c d m e d c h");
        for j in 0..extra_cols {
            first.push_str(if j + 1 == extra_cols { " R" } else { "  " });
        }
        first.push(' ');
        r[0] = first;
        muts.push(assemble("2g", &r));
        let mut r2 = rows.clone();
        let mut last = String::from(" H C D M E D C H");
        for j in 0..extra_cols {
            last.push_str(if j + 1 == extra_cols { " r" } else { "  " });
        }
        last.push(' ');
        r2[7] = last;
        muts.push(assemble("3s", &r2));
    }
    for missing in [0usize, 1, 4, 7] {
        let r: Vec<String> = rows.iter().take(missing).cloned().collect();
        muts.push(assemble("2g", &r));
    }
    muts.push(assemble("2g", &rows).replace("8|", "8||"));
    muts.push(assemble("2g", &rows).replace(" |\n7", " | |\n7"));
    muts.push(assemble("2g", &rows).replace(" r r r", " é r €"));
    muts.push(assemble("2g", &rows).replace(" r r r", "ér r 😀"));
    muts.push(assemble("2g", &rows).replace('|', ""));
    muts.push("".into());
    muts.push("|".into());
    muts.push("||".into());
    muts.push("|E".into());
    muts.push("| E".into());
    muts.push("5s| r|".into());
    muts.push("5s|r|".into());
    muts.push("2g|| R".into());
    for m in &muts {
        q_case(w, 4, m);
    }
    // random mutations of a valid diagram and random strings over the diagram alphabet
    let alpha: Vec<char> = " |\n0123456789gswbxEMHDCRemhdcrXq+-aé€١😀\t".chars().collect();
    for i in 0..n_random {
        let mut s: Vec<char> = if i % 3 == 0 {
            vec![]
        } else {
            let cells = random_position(rng, 2, 32, false);
            diagram(&cells, MOVE_NUMBERS[rng.below(8) as usize], rng.chance(1, 2)).chars().collect()
        };
        if s.is_empty() {
            let len = rng.below(60);
            for _ in 0..len {
                s.push(alpha[rng.below(alpha.len() as u64) as usize]);
            }
        } else {
            let n_mut = 1 + rng.below(4);
            for _ in 0..n_mut {
                let pos = rng.below(s.len() as u64 + 1) as usize;
                match rng.below(3) {
                    0 => s.insert(pos.min(s.len()), alpha[rng.below(alpha.len() as u64) as usize]),
                    1 => {
                        if pos < s.len() {
                            s.remove(pos);
                        }
                    }
                    _ => {
                        if pos < s.len() {
                            s[pos] = alpha[rng.below(alpha.len() as u64) as usize];
                        }
                    }
                }
            }
        }
        let st: String = s.into_iter().collect();
        q_case(w, 4, &st);
    }
}
