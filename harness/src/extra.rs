//! C18 (threads) and C20 (stack) runtime probes.
use crate::enc::*;
use crate::gens::*;
use arimaa_engine_step::*;
use std::sync::atomic::{AtomicUsize, Ordering};
use std::sync::Arc;

// rustc is the oracle for the auto traits: this file does not compile unless they hold
fn assert_send_sync<T: Send + Sync>() {}
#[allow(dead_code)]
fn static_claims() {
    assert_send_sync::<GameState>();
    assert_send_sync::<PieceBoard>();
    assert_send_sync::<PieceBoardState>();
    assert_send_sync::<Action>();
    assert_send_sync::<Zobrist>();
    assert_send_sync::<List<Zobrist>>();
    assert_send_sync::<Phase>();
    assert_send_sync::<PlayPhase>();
    assert_send_sync::<PushPullState>();
    assert_send_sync::<Square>();
    assert_send_sync::<Piece>();
    assert_send_sync::<Direction>();
    assert_send_sync::<Terminal>();
}

fn fnv(h: &mut u64, v: u64) {
    *h = (*h ^ v).wrapping_mul(0x100000001b3);
}

/// digest of everything an expander reads from a shared state
fn expand_digest(gs: &GameState) -> u64 {
    let mut h = 0xcbf29ce484222325u64;
    for v in enc_state(gs) {
        fnv(&mut h, v);
    }
    fnv(&mut h, gs.transposition_hash());
    fnv(&mut h, enc_terminal(&gs.is_terminal()));
    let acts = gs.valid_actions();
    for a in acts.iter() {
        fnv(&mut h, enc_action(a));
        fnv(&mut h, enc_preview(gs.trapped_animal_for_action(a)));
        let n = gs.take_action(a);
        for v in enc_state(&n) {
            fnv(&mut h, v);
        }
        fnv(&mut h, n.transposition_hash());
        fnv(&mut h, n.valid_actions().len() as u64);
    }
    for a in gs.valid_actions_no_rep() {
        fnv(&mut h, enc_action(&a));
    }
    fnv(&mut h, format!("{}", gs).len() as u64);
    h
}

pub fn conc_main(a: &[String]) {
    // conc <seed> <threads> <roots>
    let seed: u64 = a[0].parse().unwrap();
    let threads: usize = a[1].parse().unwrap();
    let roots: u64 = a[2].parse().unwrap();
    let mut rng = Rng::new(seed, "conc", 0);
    // shared states: random positions played forward so that histories (the Arc list) are shared too
    let mut states: Vec<GameState> = vec![];
    while (states.len() as u64) < roots {
        let clustered = rng.chance(1, 2);
        let cells = random_position(&mut rng, 4, 24, clustered);
        let text = diagram(&cells, 2, rng.chance(1, 2));
        if let Ok(Ok(mut gs)) = parse_state_guarded(&text) {
            for _ in 0..rng.below(30) {
                if gs.current_step() == 0 && gs.is_terminal().is_some() {
                    break;
                }
                let acts = gs.valid_actions();
                if acts.is_empty() {
                    break;
                }
                states.push(gs.clone());
                gs = gs.take_action(&choose(&mut rng, &gs, &acts, 15));
            }
            states.push(gs);
        }
    }
    let sequential: Vec<u64> = states.iter().map(expand_digest).collect();
    let shared = Arc::new(states);
    let seq = Arc::new(sequential);
    let mism = Arc::new(AtomicUsize::new(0));
    let done = Arc::new(AtomicUsize::new(0));
    let mut handles = vec![];
    for t in 0..threads {
        let shared = Arc::clone(&shared);
        let seq = Arc::clone(&seq);
        let mism = Arc::clone(&mism);
        let done = Arc::clone(&done);
        handles.push(std::thread::spawn(move || {
            let n = shared.len();
            // every thread expands every shared state, each in a different order, while holding
            // clones (shared Arc history nodes) that are dropped concurrently
            let mut order: Vec<usize> = (0..n).collect();
            let mut r = Rng(t as u64 * 7919 + 1);
            for i in (1..n).rev() {
                let j = r.below(i as u64 + 1) as usize;
                order.swap(i, j);
            }
            let mut first_bad: Option<usize> = None;
            for &i in order.iter() {
                let local = shared[i].clone();
                let d = expand_digest(&shared[i]);
                let d2 = expand_digest(&local);
                if d != seq[i] || d2 != seq[i] {
                    mism.fetch_add(1, Ordering::SeqCst);
                    if first_bad.is_none() {
                        first_bad = Some(i);
                    }
                }
                done.fetch_add(1, Ordering::SeqCst);
                drop(local);
            }
            first_bad
        }));
    }
    let mut first_bad: Option<usize> = None;
    for h in handles {
        match h.join() {
            Ok(Some(i)) => first_bad = first_bad.or(Some(i)),
            Ok(None) => {}
            Err(_) => {
                mism.fetch_add(1, Ordering::SeqCst);
            }
        }
    }
    let sample = format!("{}", shared[0]).replace('\n', "/");
    println!(
        "{{\"threads\":{},\"shared_states\":{},\"expansions\":{},\"mismatches\":{},\"first_bad\":{},\"sample\":{:?}}}",
        threads,
        shared.len(),
        done.load(Ordering::SeqCst),
        mism.load(Ordering::SeqCst),
        first_bad.map(|i| i as i64).unwrap_or(-1),
        sample
    );
    if let Some(i) = first_bad {
        println!("BAD {}", format!("{}", shared[i]).replace('\n', "/"));
    }
}

/// a legal capture-free game of `turns` turns from the standard array, every action drawn from
/// valid_actions(): one step of a non-rabbit piece inside its own three ranks, then a pass
pub fn long_game(turns: u64, seed: u64) -> (GameState, u64) {
    let mut gs = GameState::initial();
    for c in "rrrrrrrrhcdmedchhcdmedchrrrrrrrr".chars() {
        gs = gs.take_action(&std::str::FromStr::from_str(&c.to_string()).unwrap());
    }
    // standard array here: gold rabbits on rank 2; make room: both sides first advance nothing, pieces on
    // the back rank cannot move yet, so let rabbits of each side step forward once where needed
    let mut rng = Rng::new(seed, "long", 0);
    let mut played = 0u64;
    while played < turns {
        let gold = gs.is_p1_turn_to_move();
        let acts = gs.valid_actions();
        let b = gs.piece_board();
        // candidate steps: non-rabbit piece, destination inside own zone (gold ranks 1-3 = rows 5..7,
        // silver ranks 6-8 = rows 0..2), no capture, mover stays non-adjacent to traps' danger (traps
        // are on ranks 3 and 6: avoid stepping onto a trap square)
        let mut cands: Vec<Action> = vec![];
        let mut rabbit_fwd: Vec<Action> = vec![];
        for a in acts.iter() {
            if let Action::Move(s, d) = a {
                let i = s.index() as i32;
                let j = match d {
                    Direction::Up => i - 8,
                    Direction::Down => i + 8,
                    Direction::Left => i - 1,
                    Direction::Right => i + 1,
                };
                let bit = 1u64 << i;
                let own = (b.p1_pieces & bit != 0) == gold;
                if !own {
                    continue;
                }
                let row = j / 8;
                let inside = if gold { row >= 5 } else { row <= 2 };
                let on_trap = TRAPS.contains(&(j as usize));
                if !inside || on_trap {
                    continue;
                }
                if gs.trapped_animal_for_action(a).is_some() {
                    continue;
                }
                if b.rabbits & bit != 0 {
                    rabbit_fwd.push(*a);
                } else {
                    cands.push(*a);
                }
            }
        }
        let pick = if !cands.is_empty() {
            cands[rng.below(cands.len() as u64) as usize]
        } else if !rabbit_fwd.is_empty() {
            rabbit_fwd[rng.below(rabbit_fwd.len() as u64) as usize]
        } else {
            break;
        };
        let n = gs.take_action(&pick);
        // end the turn with a pass if it is offered (it is withheld when the position would repeat
        // a third time); otherwise take another quiet step
        let acts2 = n.valid_actions();
        if acts2.contains(&Action::Pass) {
            gs = n.take_action(&Action::Pass);
            played += 1;
        } else {
            gs = n;
            if gs.is_p1_turn_to_move() != gold {
                played += 1;
            }
        }
    }
    let len = gs.as_play_phase().map(|p| p.hash_history().len() as u64).unwrap_or(0);
    (gs, len)
}

pub fn stack_main(a: &[String]) {
    // stack <turns> <seed> <stack_bytes>
    let turns: u64 = a[0].parse().unwrap();
    let seed: u64 = a[1].parse().unwrap();
    let stack: usize = a[2].parse().unwrap();
    // the game is played on a big-stack thread; the clone/query/drop under test runs on a thread with
    // the default-size (2 MiB) stack
    let builder = std::thread::Builder::new().stack_size(1 << 30);
    let (gs, len) = builder.spawn(move || long_game(turns, seed)).unwrap().join().unwrap();
    println!("GAME turns={} history_len={} move_number={}", turns, len, gs.move_number());
    let small = std::thread::Builder::new().stack_size(stack);
    let h = small
        .spawn(move || {
            let c = gs.clone();
            let n = c.valid_actions().len();
            let t = c.transposition_hash();
            let e = c == gs;
            let s = format!("{}", c).len();
            drop(c);
            drop(gs);
            (n, t, e, s)
        })
        .unwrap();
    match h.join() {
        Ok((n, t, e, s)) => println!("OK actions={} hash={:x} eq={} printed={}", n, t, e, s),
        Err(_) => {
            println!("PANIC");
            std::process::exit(3);
        }
    }
}

static LO: AtomicUsize = AtomicUsize::new(usize::MAX);
static HI: AtomicUsize = AtomicUsize::new(0);

struct Probe(#[allow(dead_code)] u64);
impl Drop for Probe {
    fn drop(&mut self) {
        let marker = 0u8;
        let p = &marker as *const u8 as usize;
        LO.fetch_min(p, Ordering::Relaxed);
        HI.fetch_max(p, Ordering::Relaxed);
    }
}

/// stack spread (bytes between the shallowest and the deepest Probe::drop frame) when dropping a
/// uniquely owned List of the given length; and with a second handle sharing the tail
pub fn dropprobe_main(a: &[String]) {
    // dropprobe <len>...
    for arg in a {
        let n: u64 = arg.parse().unwrap();
        let builder = std::thread::Builder::new().stack_size(4 << 30);
        let r = builder
            .spawn(move || {
                let mut l: List<Probe> = List::new();
                for i in 0..n {
                    l = l.append(Probe(i));
                }
                LO.store(usize::MAX, Ordering::Relaxed);
                HI.store(0, Ordering::Relaxed);
                let len = l.len();
                let c = l.clone();
                let it = l.iter().count();
                drop(c);
                drop(l);
                (len, it, HI.load(Ordering::Relaxed).saturating_sub(LO.load(Ordering::Relaxed)))
            })
            .unwrap()
            .join()
            .unwrap();
        println!("PROBE len={} iter={} spread={}", r.0, r.1, r.2);
    }
}
