//! C20: drop-depth probe of the persistent list.
use arimaa_engine_step::*;
use std::sync::atomic::{AtomicUsize, Ordering};

static LO: AtomicUsize = AtomicUsize::new(usize::MAX);
static HI: AtomicUsize = AtomicUsize::new(0);

struct Probe(#[allow(dead_code)] u64);
impl Drop for Probe {
    fn drop(&mut self) {
        let marker = 0u8;
        let p = &marker as *const u8 as usize;
        LO.fetch_min(p, Ordering::Relaxed);
        HI.fetch_max(p, Ordering::Relaxed);
    }
}

/// stack spread (bytes between the shallowest and the deepest Probe::drop frame) when dropping a
/// uniquely owned List of the given length; and with a second handle sharing the tail
pub fn dropprobe_main(a: &[String]) {
    // dropprobe <len>...
    for arg in a {
        let n: u64 = arg.parse().unwrap();
        let builder = std::thread::Builder::new().stack_size(4 << 30);
        let r = builder
            .spawn(move || {
                let mut l: List<Probe> = List::new();
                for i in 0..n {
                    l = l.append(Probe(i));
                }
                LO.store(usize::MAX, Ordering::Relaxed);
                HI.store(0, Ordering::Relaxed);
                let len = l.len();
                let c = l.clone();
                let it = l.iter().count();
                drop(c);
                drop(l);
                (len, it, HI.load(Ordering::Relaxed).saturating_sub(LO.load(Ordering::Relaxed)))
            })
            .unwrap()
            .join()
            .unwrap();
        println!("PROBE len={} iter={} spread={}", r.0, r.1, r.2);
    }
}
