(* Model driver: re-computes every observation line of a harness trace with the extracted Coq
   model (mode "replay"), or evaluates the property monitors on the implementation's own
   observations (mode "monitor").  Unverified glue: hex <-> N conversion and line handling only. *)
module M = Model

let rec pos_of_int64_bits (hi : int) (lo : int) : M.positive option =
  (* number = hi * 2^32 + lo, both < 2^32 (OCaml ints are 63 bits) *)
  if hi = 0 && lo = 0 then None
  else
    let bit = lo land 1 in
    let lo' = (lo lsr 1) lor ((hi land 1) lsl 31) in
    let hi' = hi lsr 1 in
    match pos_of_int64_bits hi' lo' with
    | None -> Some M.XH
    | Some p -> Some (if bit = 1 then M.XI p else M.XO p)

(* arbitrary-length hex -> N, via list of hex digits (most significant first) *)
let n_of_hex (s : string) : M.n =
  let digits = List.init (String.length s) (fun i ->
    match s.[i] with
    | '0'..'9' as c -> Char.code c - 48
    | 'a'..'f' as c -> Char.code c - 87
    | 'A'..'F' as c -> Char.code c - 55
    | _ -> failwith ("bad hex: " ^ s)) in
  (* bits, most significant first *)
  let bits = List.concat_map (fun d -> [d land 8 <> 0; d land 4 <> 0; d land 2 <> 0; d land 1 <> 0]) digits in
  let rec strip = function false :: r -> strip r | l -> l in
  match strip bits with
  | [] -> M.N0
  | _ :: rest ->
    M.Npos (List.fold_left (fun p b -> if b then M.XI p else M.XO p) M.XH rest)

let hex_of_n (x : M.n) : string =
  match x with
  | M.N0 -> "0"
  | M.Npos p ->
    (* bits least significant first *)
    let rec bits p acc = match p with
      | M.XH -> true :: acc
      | M.XO q -> bits q (false :: acc)
      | M.XI q -> bits q (true :: acc) in
    (* acc ends most-significant-first *)
    let msf = bits p [] in
    let msf = List.rev (List.rev msf) in
    let len = List.length msf in
    let pad = (4 - len mod 4) mod 4 in
    let msf = List.init pad (fun _ -> false) @ msf in
    let buf = Buffer.create 16 in
    let rec go = function
      | a :: b :: c :: d :: r ->
        let v = (if a then 8 else 0) + (if b then 4 else 0) + (if c then 2 else 0) + (if d then 1 else 0) in
        Buffer.add_char buf "0123456789abcdef".[v]; go r
      | _ -> () in
    go msf; Buffer.contents buf

let emit oc tag nums =
  output_char oc tag;
  List.iter (fun x -> output_char oc ' '; output_string oc (hex_of_n x)) nums;
  output_char oc '\n'

let nums_of_line (l : string) : M.n list =
  match String.split_on_char ' ' l with
  | _ :: r -> List.filter_map (fun t -> if t = "" then None else Some (n_of_hex t)) r
  | [] -> []

let char_of_tag (t : M.n) : char = Char.chr (int_of_string ("0x" ^ hex_of_n t))

let is_zero = function M.N0 -> true | _ -> false

let replay ic oc =
  let dbg = ref true in
  let st : M.state option ref = ref None in
  (try
    while true do
      let l = input_line ic in
      if String.length l > 0 then begin
        match l.[0] with
        | 'M' -> (match nums_of_line l with [d] -> dbg := not (is_zero d) | _ -> ()); output_string oc l; output_char oc '\n'
        | 'C' -> st := None; output_string oc l; output_char oc '\n'
        | 'I' ->
          output_string oc l; output_char oc '\n';
          (match nums_of_line l with
           | M.N0 :: _ -> st := Some M.initial
           | M.Npos M.XH :: cps ->
             (match M.parse_state !dbg cps with
              | M.Ok s -> st := Some s
              | _ -> st := None; output_string oc "X I\n")
           | _ :: nums ->
             (match M.state_of_new nums with
              | Some s -> st := Some s
              | None -> st := None; output_string oc "X I\n")
           | [] -> ())
        | 'A' ->
          output_string oc l; output_char oc '\n';
          (match !st, nums_of_line l with
           | Some s, [a] ->
             (match M.dec_action a with
              | Some act -> st := Some (M.take_action s act)
              | None -> st := None)
           | _ -> ())
        | 'O' ->
          output_string oc l; output_char oc '\n';
          (match !st, nums_of_line l with
           | Some s, [k] ->
             let lines = M.observe !dbg s in
             let lines = if is_zero k then lines
               else List.filter (fun (t, _) -> let c = char_of_tag t in c = 'S' || c = 'H' || c = 'F') lines in
             List.iter (fun (t, nums) -> emit oc (char_of_tag t) nums) lines
           | _ -> ())
        | 'Q' ->
          output_string oc l; output_char oc '\n';
          (match nums_of_line l with
           | which :: cps -> emit oc 'P' (M.run_parser !dbg which cps)
           | [] -> ())
        | 'Y' ->
          output_string oc l; output_char oc '\n';
          (match nums_of_line l with
           | [which; v] -> emit oc 'Z' (M.run_printer which v)
           | _ -> ())
        | 'G' ->
          output_string oc l; output_char oc '\n';
          (match nums_of_line l with
           | [v] -> emit oc 'Z' (M.run_square_maps v)
           | _ -> ())
        | _ -> ()
      end
    done
  with End_of_file -> ())

let () =
  match Array.to_list Sys.argv with
  | _ :: "replay" :: inp :: out :: _ ->
    let ic = open_in inp in
    let oc = open_out out in
    replay ic oc; close_in ic; close_out oc
  | _ -> prerr_endline "usage: driver replay <trace> <out>"; exit 2
