(* Model driver: re-computes every observation line of a harness trace with the extracted Coq
   model (mode "replay"), or evaluates the property monitors on the implementation's own
   observations (mode "monitor").  Unverified glue: hex <-> N conversion and line handling only. *)
module M = Model

let rec pos_of_int64_bits (hi : int) (lo : int) : M.positive option =
  (* number = hi * 2^32 + lo, both < 2^32 (OCaml ints are 63 bits) *)
  if hi = 0 && lo = 0 then None
  else
    let bit = lo land 1 in
    let lo' = (lo lsr 1) lor ((hi land 1) lsl 31) in
    let hi' = hi lsr 1 in
    match pos_of_int64_bits hi' lo' with
    | None -> Some M.XH
    | Some p -> Some (if bit = 1 then M.XI p else M.XO p)

(* arbitrary-length hex -> N, via list of hex digits (most significant first) *)
let n_of_hex (s : string) : M.n =
  let digits = List.init (String.length s) (fun i ->
    match s.[i] with
    | '0'..'9' as c -> Char.code c - 48
    | 'a'..'f' as c -> Char.code c - 87
    | 'A'..'F' as c -> Char.code c - 55
    | _ -> failwith ("bad hex: " ^ s)) in
  (* bits, most significant first *)
  let bits = List.concat_map (fun d -> [d land 8 <> 0; d land 4 <> 0; d land 2 <> 0; d land 1 <> 0]) digits in
  let rec strip = function false :: r -> strip r | l -> l in
  match strip bits with
  | [] -> M.N0
  | _ :: rest ->
    M.Npos (List.fold_left (fun p b -> if b then M.XI p else M.XO p) M.XH rest)

let hex_of_n (x : M.n) : string =
  match x with
  | M.N0 -> "0"
  | M.Npos p ->
    (* bits least significant first *)
    let rec bits p acc = match p with
      | M.XH -> true :: acc
      | M.XO q -> bits q (false :: acc)
      | M.XI q -> bits q (true :: acc) in
    (* acc ends most-significant-first *)
    let msf = bits p [] in
    let msf = List.rev (List.rev msf) in
    let len = List.length msf in
    let pad = (4 - len mod 4) mod 4 in
    let msf = List.init pad (fun _ -> false) @ msf in
    let buf = Buffer.create 16 in
    let rec go = function
      | a :: b :: c :: d :: r ->
        let v = (if a then 8 else 0) + (if b then 4 else 0) + (if c then 2 else 0) + (if d then 1 else 0) in
        Buffer.add_char buf "0123456789abcdef".[v]; go r
      | _ -> () in
    go msf; Buffer.contents buf

let emit oc tag nums =
  output_char oc tag;
  List.iter (fun x -> output_char oc ' '; output_string oc (hex_of_n x)) nums;
  output_char oc '\n'

let nums_of_line (l : string) : M.n list =
  match String.split_on_char ' ' l with
  | _ :: r -> List.filter_map (fun t -> if t = "" then None else Some (n_of_hex t)) r
  | [] -> []

let char_of_tag (t : M.n) : char = Char.chr (int_of_string ("0x" ^ hex_of_n t))

let is_zero = function M.N0 -> true | _ -> false

let replay ic oc =
  let dbg = ref true in
  let st : M.state option ref = ref None in
  (try
    while true do
      let l = input_line ic in
      if String.length l > 0 then begin
        match l.[0] with
        | 'M' -> (match nums_of_line l with [d] -> dbg := not (is_zero d) | _ -> ()); output_string oc l; output_char oc '\n'
        | 'C' -> st := None; output_string oc l; output_char oc '\n'
        | 'I' ->
          output_string oc l; output_char oc '\n';
          (match nums_of_line l with
           | M.N0 :: _ -> st := Some M.initial
           | M.Npos M.XH :: cps | M.Npos (M.XI M.XH) :: cps ->
             (match M.parse_state !dbg cps with
              | M.Ok s -> st := Some s
              | _ -> st := None; output_string oc "X I\n")
           | _ :: nums ->
             (match M.state_of_new nums with
              | Some s -> st := Some s
              | None -> st := None; output_string oc "X I\n")
           | [] -> ())
        | 'A' ->
          output_string oc l; output_char oc '\n';
          (match !st, nums_of_line l with
           | Some s, [a] ->
             (match M.dec_action a with
              | Some act -> st := Some (M.take_action s act)
              | None -> st := None)
           | _ -> ())
        | 'O' ->
          output_string oc l; output_char oc '\n';
          (match !st, nums_of_line l with
           | Some s, [k] ->
             let lines = M.observe !dbg s in
             let lines = if is_zero k then lines
               else if k = M.Npos (M.XO M.XH) then List.filter (fun (t, _) -> char_of_tag t = 'S') lines
               else List.filter (fun (t, _) -> let c = char_of_tag t in c = 'S' || c = 'H' || c = 'F') lines in
             (* constructed states (kind 1): where the safety guard of model/Safety.v is false the crate
                panics in transposition_hash; the model predicts that panic *)
             let unsafe = (not (is_zero k)) && not (M.queries_safe s) in
             List.iter (fun (t, nums) ->
               if unsafe && char_of_tag t = 'H' then output_string oc "X H\n"
               else emit oc (char_of_tag t) nums) lines
           | _ -> ())
        | 'Q' ->
          output_string oc l; output_char oc '\n';
          (match nums_of_line l with
           | which :: cps -> emit oc 'P' (M.run_parser !dbg which cps)
           | [] -> ())
        | 'Y' ->
          output_string oc l; output_char oc '\n';
          (match nums_of_line l with
           | [which; v] -> emit oc 'Z' (M.run_printer which v)
           | _ -> ())
        | 'G' ->
          output_string oc l; output_char oc '\n';
          (match nums_of_line l with
           | [v] -> emit oc 'Z' (M.run_square_maps v)
           | [_; x] -> emit oc 'Z' (M.run_from_bit_board x)
           | _ -> ())
        | _ -> ()
      end
    done
  with End_of_file -> ())


(* ---- monitor mode: evaluate the property monitors (coq/model/Monitors.v) on the implementation's
   own observation blocks.  Output: `F <property> <code> <first line of case> <line of failure>` per
   monitor hit, and a final `T <blocks> <transitions> <parses> <hits>` line. ---- *)
let n_of_int (i : int) : M.n = n_of_hex (Printf.sprintf "%x" i)
let int_of_n (x : M.n) : int = int_of_string ("0x" ^ hex_of_n x)

let is_control c = c = 'C' || c = 'I' || c = 'A' || c = 'O' || c = 'Q' || c = 'Y' || c = 'G' || c = 'M'

let monitor ic oc =
  let lines = ref [] in
  (try while true do lines := input_line ic :: !lines done with End_of_file -> ());
  let arr = Array.of_list (List.rev !lines) in
  let n = Array.length arr in
  let dbg = ref true in
  let case_line = ref 0 in
  let reach = ref true in
  let inv = ref true in
  let nopanic = ref true in
  let inv_pending = ref false in
  let ghost : M.ghost option ref = ref None in
  let last_blk : (M.n * M.n list) list option ref = ref None in
  let pending : ((M.n * M.n list) list * M.n) option ref = ref None in
  let blocks = ref 0 and trans = ref 0 and parses = ref 0 and hits = ref 0 in
  let report ln fs =
    List.iter (fun (p, c) ->
      incr hits;
      Printf.fprintf oc "F %d %d %d %d\n" (int_of_n p) (int_of_n c) (!case_line + 1) (ln + 1)) fs in
  let tag_n c = n_of_int (Char.code c) in
  let i = ref 0 in
  while !i < n do
    let l = arr.(!i) in
    let ln = !i in
    incr i;
    if String.length l > 0 then begin
      match l.[0] with
      | 'M' -> (match nums_of_line l with [d] -> dbg := not (is_zero d) | _ -> ())
      | 'C' ->
        case_line := ln; reach := true; inv := true; nopanic := true; inv_pending := false; ghost := None; last_blk := None; pending := None
      | 'I' ->
        (match nums_of_line l with
         | M.N0 :: _ -> ()
         | M.Npos M.XH :: _ -> ()
         | M.Npos (M.XI M.XH) :: _ -> reach := false; inv := false
         | nums -> reach := false; nopanic := false; inv := List.length nums >= 17; inv_pending := !inv);
        last_blk := None; pending := None
      | 'A' ->
        (match !last_blk, nums_of_line l with
         | Some b, [a] -> pending := Some (b, a)
         | _ -> pending := None);
        last_blk := None;
        if !i < n && String.length arr.(!i) > 2 && arr.(!i).[0] = 'X' && arr.(!i).[2] = 'A' then begin
          if !nopanic || !inv then report ln [(n_of_int 19, n_of_int 65)];
          pending := None
        end
      | 'O' ->
        let k = match nums_of_line l with [k] -> k | _ -> M.N0 in
        (* collect the observation lines of this block *)
        let blk = ref [] in
        while !i < n && (String.length arr.(!i) = 0 || not (is_control arr.(!i).[0])) do
          let ol = arr.(!i) in
          if String.length ol > 0 then begin
            if ol.[0] = 'X' then
              blk := (tag_n 'X', [tag_n (if String.length ol > 2 then ol.[2] else '?')]) :: !blk
            else blk := (tag_n ol.[0], nums_of_line ol) :: !blk
          end;
          incr i
        done;
        let blk = List.rev !blk in
        incr blocks;
        (* an assembled root state gets the invariant-level clauses only if it passes the executable invariant *)
        if !inv_pending then begin inv_pending := false; inv := M.inv_exec_blk blk end;
        if is_zero k || k = M.Npos M.XH then report ln (M.mon_block !dbg !reach !inv !nopanic blk)
        else if !nopanic then begin
          (* S-only block: a missing S line is a panic while reading the state *)
          match M.get (tag_n 'S') blk with None -> report ln [(n_of_int 19, tag_n 'S')] | Some _ -> ()
        end;
        (match !pending with
         | Some (b, a) when !inv ->
           incr trans;
           let g = match !ghost with Some g -> g | None ->
             (match M.get (tag_n 'S') b with
              | Some sl -> (match M.dec_state sl with Some s -> M.ghost_init s | None -> M.ghost_init M.initial)
              | None -> M.ghost_init M.initial) in
           if not (M.trans_state_eq b a blk) then report ln [(M.N0, n_of_int 4)];
           let (fs, g') = M.mon_trans !reach g b a blk in
           report ln fs;
           ghost := Some g'
         | _ -> ());
        pending := None;
        (if !reach then
          let g = match !ghost with Some g -> g | None ->
            (match M.get (tag_n 'S') blk with
             | Some sl -> (match M.dec_state sl with Some s -> M.ghost_init s | None -> M.ghost_init M.initial)
             | None -> M.ghost_init M.initial) in
          ghost := Some g;
          if is_zero k then report ln (M.mon_ghost g blk));
        last_blk := Some blk
      | 'Q' ->
        (match nums_of_line l with
         | which :: cps when !i < n && String.length arr.(!i) > 0 && arr.(!i).[0] = 'P' ->
           incr parses;
           report ln (M.mon_parse !dbg which cps (nums_of_line arr.(!i)));
           incr i
         | _ -> ())
      | 'Y' ->
        (match nums_of_line l with
         | [which; v] when !i < n && String.length arr.(!i) > 0 && arr.(!i).[0] = 'Z' ->
           incr parses;
           report ln (M.mon_print !dbg which v (nums_of_line arr.(!i)));
           incr i
         | _ -> ())
      | 'G' ->
        (match nums_of_line l with
         | [v] when !i < n && String.length arr.(!i) > 0 && arr.(!i).[0] = 'Z' ->
           incr parses;
           report ln (M.mon_square v (nums_of_line arr.(!i)));
           incr i
         | [_; x] when !i < n && String.length arr.(!i) > 0 && arr.(!i).[0] = 'Z' ->
           incr parses;
           report ln (M.mon_from_bit_board x (nums_of_line arr.(!i)));
           incr i
         | _ -> ())
      | _ -> ()
    end
  done;
  Printf.fprintf oc "T %d %d %d %d\n" !blocks !trans !parses !hits

let () =
  match Array.to_list Sys.argv with
  | _ :: "replay" :: inp :: out :: _ ->
    let ic = open_in inp in
    let oc = open_out out in
    replay ic oc; close_in ic; close_out oc
  | _ :: "monitor" :: inp :: out :: _ ->
    let ic = open_in inp in
    let oc = open_out out in
    monitor ic oc; close_in ic; close_out oc
  | _ -> prerr_endline "usage: driver replay|monitor <trace> <out>"; exit 2
